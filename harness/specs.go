package main

// Executable specifications ("judge") evaluated on the implementation's observed transitions.
// Each clause is traceable to a phrase of the property (DESIGN.md appendix C).

import (
	"bytes"
	"fmt"
	"path"
	"regexp"
	"sort"
	"strconv"
	"strings"
	"time"
)

func blobID(data []byte) string { return hx(sha1sum(objContent("blob", data))) }

func cleanArg(a string) string {
	return strings.ReplaceAll(path.Clean(a), `\`, "/")
}

func idxMap(es []ent) map[string]string {
	m := map[string]string{}
	for _, e := range es {
		m[string(e.path)] = hx(e.id)
	}
	return m
}

func mapsEqual(a, b map[string]string) (string, bool) {
	for k, v := range a {
		if w, ok := b[k]; !ok {
			return fmt.Sprintf("%q missing", k), false
		} else if w != v {
			return fmt.Sprintf("%q: %s vs %s", k, v, w), false
		}
	}
	for k := range b {
		if _, ok := a[k]; !ok {
			return fmt.Sprintf("%q unexpected", k), false
		}
	}
	return "", true
}

func filesEqual(a, b map[string][]byte) (string, bool) {
	for k, v := range a {
		if w, ok := b[k]; !ok {
			return fmt.Sprintf("file %q disappeared", k), false
		} else if !bytes.Equal(v, w) {
			return fmt.Sprintf("file %q changed", k), false
		}
	}
	for k := range b {
		if _, ok := a[k]; !ok {
			return fmt.Sprintf("file %q appeared", k), false
		}
	}
	return "", true
}

func bmapEqual(a, b map[string][]byte) bool { _, ok := filesEqual(a, b); return ok }

// stateEqual: everything the observer sees, except the work-tree directory list
func stateEqual(a, b *Obs) (string, bool) {
	if !bytes.Equal(a.Head, b.Head) || a.HasHead != b.HasHead {
		return "HEAD changed", false
	}
	if !bmapEqual(a.Branches, b.Branches) {
		return "branches changed", false
	}
	if !bytes.Equal(a.IndexRaw, b.IndexRaw) || a.HasIndex != b.HasIndex {
		return "index changed", false
	}
	if len(a.Objects) != len(b.Objects) {
		return "object set changed", false
	}
	if !bytes.Equal(a.LogHead, b.LogHead) || !bmapEqual(a.LogBranches, b.LogBranches) {
		return "logs changed", false
	}
	if !bytes.Equal(a.CfgLocal, b.CfgLocal) || !bytes.Equal(a.CfgGlobal, b.CfgGlobal) || a.HasCfgGlob != b.HasCfgGlob {
		return "config changed", false
	}
	if d, ok := filesEqual(a.Files, b.Files); !ok {
		return d, false
	}
	return "", true
}

func under(dir, p string) bool { return strings.HasPrefix(p, dir+"/") && len(p) > len(dir)+1 }

// ---- ignore semantics of the specification ----

func ignoreLines(o *Obs) []string {
	b, ok := o.Files[".goitignore"]
	if !ok {
		return nil
	}
	var ls []string
	for _, l := range strings.Split(string(b), "\n") {
		l = strings.TrimSuffix(l, "\r")
		if l != "" {
			ls = append(ls, l)
		}
	}
	return ls
}

// ignoredStrict: what the property statement says is excluded: beneath a `name/` directory (at any
// depth, whole component), or a file with extension `.ext` for a `*.ext` entry; Goit's own directory.
func ignoredStrict(o *Obs, p string) bool {
	if p == ".goit" || strings.HasPrefix(p, ".goit/") {
		return true
	}
	for _, l := range ignoreLines(o) {
		if strings.HasSuffix(l, "/") {
			d := strings.TrimSuffix(l, "/")
			if strings.HasPrefix(p, d+"/") || strings.Contains(p, "/"+d+"/") {
				return true
			}
		} else if strings.HasPrefix(l, "*.") {
			if strings.HasSuffix(p, l[1:]) {
				return true
			}
		}
	}
	return false
}

// ignoredLoose: the widest reading (the unanchored regular expressions Goit builds); paths between the
// two readings are left unconstrained by the specifications.
func ignoredLoose(o *Obs, p string) bool {
	if ignoredStrict(o, p) {
		return true
	}
	for _, l := range ignoreLines(o) {
		// the pattern Goit builds: the line is literal text, `*` a wildcard in a line without '/',
		// a line with '/' is followed by anything; the match may start anywhere in the path
		var re string
		if strings.Contains(l, "/") {
			re = regexp.QuoteMeta(l) + ".*"
		} else {
			re = strings.ReplaceAll(regexp.QuoteMeta(l), `\*`, ".*")
		}
		rx, err := regexp.Compile(re)
		if err != nil {
			return true
		}
		if rx.MatchString(p) || rx.MatchString(p+"/") {
			return true
		}
		// a parent directory may be pruned
		for i := strings.Index(p, "/"); i >= 0; {
			if rx.MatchString(p[:i]+"/") || rx.MatchString(p[:i]) {
				return true
			}
			j := strings.Index(p[i+1:], "/")
			if j < 0 {
				break
			}
			i += 1 + j
		}
	}
	return false
}

// ---- C03: connectivity ----

func fsck(o *Obs) []Viol {
	var vs []Viol
	if !o.Inited {
		return nil
	}
	add := func(c, d string) { vs = append(vs, Viol{Clause: c, Detail: d}) }
	b, ok := o.headBranch()
	if !ok {
		add("head", fmt.Sprintf("HEAD does not name a branch: %q", clip(string(o.Head), 80)))
	} else if _, ex := o.Branches[b]; !ex && len(o.Branches) > 0 {
		add("head", fmt.Sprintf("HEAD names branch %q which does not exist while other branches do", b))
	}
	isKind := func(id, kind string) bool {
		x, ok := o.Objects[id]
		return ok && x.OK && x.Kind == kind
	}
	for n, v := range o.Branches {
		if !validHex40(v) {
			add("branches", fmt.Sprintf("branch %q holds %q, not a full id", n, clip(string(v), 60)))
		} else if !isKind(string(v), "commit") {
			add("branches", fmt.Sprintf("branch %q points to %s which is not a stored commit", n, v))
		}
	}
	for id, x := range o.Objects {
		if !x.OK || !x.NameOK {
			add("names", fmt.Sprintf("object file %s: well-formed=%v name-is-sha1=%v", id, x.OK, x.NameOK))
			continue
		}
		switch x.Kind {
		case "commit":
			ci := parseCommit(x.Data)
			if !ci.OK || !isKind(ci.Tree, "tree") {
				add("commits", fmt.Sprintf("commit %s: tree %q not a stored tree", id, ci.Tree))
			}
			for _, p := range ci.Parents {
				if !isKind(p, "commit") {
					add("commits", fmt.Sprintf("commit %s: parent %q not a stored commit", id, p))
				}
			}
		case "tree":
			items, ok := parseTree(x.Data)
			if !ok {
				add("trees", fmt.Sprintf("tree %s does not parse", id))
			}
			for _, it := range items {
				want := "blob"
				if it.Mode == "040000" {
					want = "tree"
				}
				if !isKind(hx(it.ID), want) {
					add("trees", fmt.Sprintf("tree %s entry %q -> %s is not a stored %s", id, it.Name, hx(it.ID), want))
				}
			}
		}
	}
	if !o.IndexOK {
		add("index", "index file does not decode")
	}
	for _, e := range o.Index {
		if !isKind(hx(e.id), "blob") {
			add("index", fmt.Sprintf("staged %q -> %s is not a stored blob", e.path, hx(e.id)))
		}
	}
	if len(o.Extra) > 0 {
		add("escape", fmt.Sprintf("unexpected entries inside .goit: %v", o.Extra))
	}
	return vs
}

func orC03(t *Trans) []Viol {
	vs := fsck(t.Post)
	for id, x := range t.Pre.Objects {
		y, ok := t.Post.Objects[id]
		if !ok {
			vs = append(vs, Viol{Clause: "monotone", Detail: "object " + id + " disappeared"})
		} else if x.OK && (!y.OK || !bytes.Equal(x.Data, y.Data) || x.Kind != y.Kind) {
			vs = append(vs, Viol{Clause: "monotone", Detail: "object " + id + " changed content"})
		}
	}
	return vs
}

// ---- C18: exit class, refusal leaves the repository unchanged ----

func orC18(t *Trans) []Viol {
	var vs []Viol
	if t.Res.Class != "ok" && t.Res.Class != "error" {
		vs = append(vs, Viol{Clause: "exit-class", Detail: "process ended with " + t.Res.Class + ": " + clip(firstLine(t.Res.Stderr), 160)})
	}
	return vs
}

func firstLine(s string) string {
	for _, l := range strings.Split(s, "\n") {
		if strings.HasPrefix(l, "panic:") {
			return l
		}
	}
	if i := strings.IndexByte(s, '\n'); i >= 0 {
		return s[:i]
	}
	return s
}

// refused commands leave the repository unchanged (C10, C08, C18)
func orRefusedUnchanged(t *Trans) []Viol {
	if t.Res.Class != "error" {
		return nil
	}
	if d, ok := stateEqual(t.Pre, t.Post); !ok {
		return []Viol{{Clause: "refused-unchanged", Detail: "command exited with an error but " + d}}
	}
	return nil
}

// ---- C06: canonical staging file ----

func orC06(t *Trans) []Viol {
	var vs []Viol
	o := t.Post
	if !o.HasIndex {
		return nil
	}
	if !o.IndexOK {
		return []Viol{{Clause: "canonical", Detail: "index file does not decode completely (count / lengths / trailing bytes)"}}
	}
	for i, e := range o.Index {
		if len(e.id) != 20 {
			vs = append(vs, Viol{Clause: "canonical", Detail: "entry id is not 20 bytes"})
		}
		if i > 0 && bytes.Compare(o.Index[i-1].path, e.path) >= 0 {
			vs = append(vs, Viol{Clause: "canonical", Detail: fmt.Sprintf("entries not strictly ascending: %q then %q", o.Index[i-1].path, e.path)})
		}
	}
	return vs
}

// ---- C04: add / rm ----

func walkFilesUnder(o *Obs, dir string) []string {
	var fs []string
	for p := range o.Files {
		if dir == "." || under(dir, p) {
			fs = append(fs, p)
		}
	}
	sort.Strings(fs)
	return fs
}

func isDirIn(o *Obs, p string) bool {
	for _, d := range o.Dirs {
		if d == p {
			return true
		}
	}
	return false
}

// expectedAdd: the staging area the specification demands after a successful `add args`;
// ok=false when the specification expects the command to be refused.
func expectedAdd(pre *Obs, args []string) (map[string]string, bool) {
	idx := idxMap(pre.Index)
	if len(args) == 0 {
		return idx, false
	}
	for _, a := range args {
		p := cleanArg(a)
		_, isFile := pre.Files[p]
		isDir := p == "." || isDirIn(pre, p)
		if !isFile && !isDir {
			if _, tracked := idxMap(pre.Index)[p]; !tracked {
				return idx, false
			}
		}
	}
	for _, a := range args {
		p := cleanArg(a)
		if data, isFile := pre.Files[p]; isFile {
			if !ignoredLoose(pre, p) {
				idx[p] = blobID(data)
			}
			continue
		}
		if p == "." || isDirIn(pre, p) {
			if p != "." && ignoredLoose(pre, p) {
				continue
			}
			for _, f := range walkFilesUnder(pre, p) {
				if !ignoredLoose(pre, f) {
					idx[f] = blobID(pre.Files[f])
				}
			}
			continue
		}
		delete(idx, p)
	}
	return idx, true
}

func namedBy(args []string, p string) bool {
	for _, a := range args {
		c := cleanArg(a)
		if c == "." || c == p || under(c, p) {
			return true
		}
	}
	return false
}

func orC04(t *Trans) []Viol {
	var vs []Viol
	if len(t.Args) == 0 {
		return nil
	}
	switch t.Args[0] {
	case "add":
		args := t.Args[1:]
		if d, ok := filesEqual(t.Pre.Files, t.Post.Files); !ok {
			vs = append(vs, Viol{Clause: "add.frame", Detail: "add touched the working tree: " + d})
		}
		// ignore files make the expected set ambiguous between the strict and the loose reading: C17 covers them
		if len(ignoreLines(t.Pre)) > 0 {
			return vs
		}
		want, valid := expectedAdd(t.Pre, args)
		got := idxMap(t.Post.Index)
		if t.Res.Class == "ok" {
			if !valid {
				// succeeded although an argument matched nothing: the effect must still be exact for the others
				return vs
			}
			if d, ok := mapsEqual(want, got); !ok {
				vs = append(vs, Viol{Clause: "add.staged", Detail: "staging area after add differs from the specification: " + d})
			}
			for p, id := range got {
				if x, ok := t.Post.Objects[id]; !ok || !x.OK || x.Kind != "blob" {
					vs = append(vs, Viol{Clause: "add.staged", Detail: fmt.Sprintf("blob %s of %q is not stored", id, p)})
				} else if data, isFile := t.Pre.Files[p]; isFile && namedBy(args, p) && !bytes.Equal(x.Data, data) {
					vs = append(vs, Viol{Clause: "add.staged", Detail: fmt.Sprintf("stored blob of %q does not hold the file's bytes", p)})
				}
			}
		} else if t.Res.Class == "error" {
			pre := idxMap(t.Pre.Index)
			for p, id := range pre {
				if !namedBy(args, p) && got[p] != id {
					vs = append(vs, Viol{Clause: "add.frame", Detail: fmt.Sprintf("entry %q not named by the command changed", p)})
				}
			}
			for p := range got {
				if _, ok := pre[p]; !ok && !namedBy(args, p) {
					vs = append(vs, Viol{Clause: "add.frame", Detail: fmt.Sprintf("entry %q not named by the command appeared", p)})
				}
			}
		}
	case "rm":
		args := t.Args[1:]
		pre := idxMap(t.Pre.Index)
		got := idxMap(t.Post.Index)
		// which tracked paths are named
		named := map[string]bool{}
		allKnown := len(args) > 0
		for _, a := range args {
			p := cleanArg(a)
			hit := false
			if _, ok := pre[p]; ok {
				named[p] = true
				hit = true
			}
			for q := range pre {
				if under(p, q) {
					named[q] = true
					hit = true
				}
			}
			if !hit {
				allKnown = false
			}
		}
		// untracked files are never removed or modified; tracked files not named neither
		for p, data := range t.Pre.Files {
			if named[p] {
				continue
			}
			if w, ok := t.Post.Files[p]; !ok {
				what := "untracked"
				if _, tr := pre[p]; tr {
					what = "tracked but not named"
				}
				vs = append(vs, Viol{Clause: "rm.frame", Detail: fmt.Sprintf("%s file %q was removed", what, p)})
			} else if !bytes.Equal(w, data) {
				vs = append(vs, Viol{Clause: "rm.frame", Detail: fmt.Sprintf("file %q was modified", p)})
			}
		}
		for p, id := range pre {
			if !named[p] && got[p] != id {
				vs = append(vs, Viol{Clause: "rm.frame", Detail: fmt.Sprintf("entry %q not named by the command changed", p)})
			}
		}
		for p := range got {
			if _, ok := pre[p]; !ok {
				vs = append(vs, Viol{Clause: "rm.frame", Detail: fmt.Sprintf("entry %q appeared", p)})
			}
		}
		// a tracked path now occupied by a directory is left unconstrained
		for p := range named {
			if isDirIn(t.Pre, p) {
				allKnown = false
			}
		}
		// the exit status of an invocation whose effect is right is not constrained (e.g. a repeated argument)
		if allKnown {
			for p := range named {
				if _, ok := got[p]; ok {
					vs = append(vs, Viol{Clause: "rm.removed", Detail: fmt.Sprintf("%q is still staged (exit class %s)", p, t.Res.Class)})
				}
				if _, ok := t.Post.Files[p]; ok {
					vs = append(vs, Viol{Clause: "rm.removed", Detail: fmt.Sprintf("%q is still in the working tree (exit class %s)", p, t.Res.Class)})
				}
			}
		}
	}
	return vs
}

// ---- C02: commit ----

var msgFlag = func(args []string) (string, bool) {
	for i, a := range args {
		if a == "-m" && i+1 < len(args) {
			return args[i+1], true
		}
	}
	return "", false
}

func orC02(t *Trans) []Viol {
	if len(t.Args) == 0 || t.Args[0] != "commit" || t.Res.Class != "ok" {
		return nil
	}
	var vs []Viol
	add := func(c, d string) { vs = append(vs, Viol{Clause: c, Detail: d}) }
	var newCommits, newOther []string
	for id, x := range t.Post.Objects {
		if _, ok := t.Pre.Objects[id]; !ok {
			if x.Kind == "commit" {
				newCommits = append(newCommits, id)
			} else if x.Kind != "tree" {
				newOther = append(newOther, id)
			}
		}
	}
	if len(newCommits) != 1 {
		add("one-commit", fmt.Sprintf("%d new commit objects after a successful commit", len(newCommits)))
		return vs
	}
	if len(newOther) > 0 {
		add("one-commit", fmt.Sprintf("new objects that are neither the commit nor trees: %v", newOther))
	}
	c := newCommits[0]
	snap, ci, ok := t.Post.commitSnapshot(c)
	if !ok {
		add("snapshot", "the new commit's snapshot cannot be read (missing or malformed tree)")
		return vs
	}
	if d, ok := mapsEqual(idxMap(t.Pre.Index), idxMap(snap)); !ok || len(snap) != len(t.Pre.Index) {
		add("snapshot", "snapshot differs from the staging area: "+d)
	}
	for _, e := range snap {
		if x, ok := t.Post.Objects[hx(e.id)]; !ok || !x.OK || x.Kind != "blob" || !x.NameOK {
			add("blob-bytes", fmt.Sprintf("blob of %q missing or damaged", e.path))
		}
	}
	br, _ := t.Pre.headBranch()
	oldTip, had := t.Pre.Branches[br]
	if had {
		if len(ci.Parents) != 1 || ci.Parents[0] != string(oldTip) {
			add("parent", fmt.Sprintf("parents %v, expected [%s]", ci.Parents, oldTip))
		}
	} else if len(ci.Parents) != 0 {
		add("parent", fmt.Sprintf("first commit on the branch has parents %v", ci.Parents))
	}
	if string(t.Post.Branches[br]) != c {
		add("branch", fmt.Sprintf("current branch %q holds %q, not the new commit %s", br, t.Post.Branches[br], c))
	}
	if !bytes.Equal(t.Pre.Head, t.Post.Head) {
		add("branch", "HEAD no longer names the same branch")
	}
	for n, v := range t.Pre.Branches {
		if n != br && !bytes.Equal(t.Post.Branches[n], v) {
			add("frame", fmt.Sprintf("other branch %q changed", n))
		}
	}
	for n := range t.Post.Branches {
		if _, ok := t.Pre.Branches[n]; !ok && n != br {
			add("frame", fmt.Sprintf("branch %q appeared", n))
		}
	}
	if !bytes.Equal(t.Pre.IndexRaw, t.Post.IndexRaw) {
		add("frame", "staging area changed")
	}
	if d, ok := filesEqual(t.Pre.Files, t.Post.Files); !ok {
		add("frame", d)
	}
	name, email, _ := t.Pre.identity()
	wantPrefix := name + " <" + email + "> "
	if !strings.HasPrefix(ci.Author, wantPrefix) || ci.Author != ci.Committer {
		add("ident", fmt.Sprintf("author %q committer %q, expected both to start with %q", ci.Author, ci.Committer, wantPrefix))
	}
	if m, ok := msgFlag(t.Args); ok && ci.Message != m {
		add("ident", fmt.Sprintf("recorded message %q, given %q", clip(ci.Message, 80), clip(m, 80)))
	}
	return vs
}

// ---- status parsing ----

type statusOut struct {
	Branch    string
	Staged    map[string]string // path -> new file|modified|deleted
	Modified  []string
	Deleted   []string
	Untracked []string
	OK        bool
}

func parseStatus(s string) statusOut {
	st := statusOut{Staged: map[string]string{}}
	sec := ""
	for _, l := range strings.Split(s, "\n") {
		switch {
		case strings.HasPrefix(l, "On branch "):
			st.Branch = strings.TrimPrefix(l, "On branch ")
			st.OK = true
		case l == "Changes to be committed:":
			sec = "staged"
		case l == "Changes not staged for commit:":
			sec = "work"
		case l == "Untracked files:":
			sec = "untracked"
		case strings.HasPrefix(l, "\t"):
			body := l[1:]
			switch sec {
			case "staged", "work":
				if len(body) < 13 {
					continue
				}
				kind := strings.TrimSpace(body[:13])
				p := body[13:]
				kind = strings.TrimSuffix(kind, ":")
				if sec == "staged" {
					st.Staged[p] = kind
				} else if kind == "modified" {
					st.Modified = append(st.Modified, p)
				} else if kind == "deleted" {
					st.Deleted = append(st.Deleted, p)
				}
			case "untracked":
				st.Untracked = append(st.Untracked, body)
			}
		}
	}
	sort.Strings(st.Modified)
	sort.Strings(st.Deleted)
	sort.Strings(st.Untracked)
	return st
}

// headSnapshot: snapshot of the commit HEAD resolves to (empty when there is no commit yet)
func headSnapshot(o *Obs) (map[string]string, bool) {
	id := o.headCommit()
	if id == "" {
		return map[string]string{}, true
	}
	es, _, ok := o.commitSnapshot(id)
	return idxMap(es), ok
}

func stagedDiff(o *Obs) (map[string]string, bool) {
	snap, ok := headSnapshot(o)
	if !ok {
		return nil, false
	}
	idx := idxMap(o.Index)
	d := map[string]string{}
	for p, id := range idx {
		if s, ok := snap[p]; !ok {
			d[p] = "new file"
		} else if s != id {
			d[p] = "modified"
		}
	}
	for p := range snap {
		if _, ok := idx[p]; !ok {
			d[p] = "deleted"
		}
	}
	return d, true
}

var specEmailRe = regexp.MustCompile(`^[a-zA-Z0-9_.+-]+@([a-zA-Z0-9][a-zA-Z0-9-]*\.)+[a-zA-Z]{2,}$`)

// identityAccepted: a name and an e-mail address are configured and Goit accepts them
// (name without '<' or line break; e-mail of the form local@label(.label)*.tld)
func identityAccepted(o *Obs) bool {
	n, e, ok := o.identity()
	return ok && !strings.ContainsAny(n, "<\n\r") && specEmailRe.MatchString(e)
}

// intact: nothing in the repository is damaged as far as the independent observer can tell
func intact(o *Obs) bool {
	if !o.IndexOK && o.HasIndex {
		return false
	}
	if _, ok := o.headBranch(); !ok {
		return false
	}
	for _, x := range o.Objects {
		if !x.OK || !x.NameOK {
			return false
		}
	}
	for _, b := range o.Branches {
		if len(b) != 40 {
			return false
		}
		for _, c := range b {
			if !(c >= '0' && c <= '9' || c >= 'a' && c <= 'f') {
				return false
			}
		}
	}
	return configLoads(o.CfgLocal) && configLoads(o.CfgGlobal)
}

// ---- the observation channels every property relies on ----

// orReaders: the read-only commands the properties are observed through must be faithful and must not change
// anything: `ls-files [-s]` prints the staging area as stored, `rev-parse HEAD|<branch>` the stored commit id,
// and status / log / reflog / ls-files / rev-parse / cat-file / hash-object / branch --list leave every file alone.
func orReaders(t *Trans) []Viol {
	if len(t.Args) == 0 || !t.Pre.Inited || !intact(t.Pre) {
		return nil
	}
	var vs []Viol
	a := t.Args
	readOnly := false
	switch a[0] {
	case "status", "log", "reflog", "ls-files", "rev-parse", "cat-file", "hash-object":
		readOnly = true
	case "branch":
		readOnly = len(a) == 1 || (len(a) == 2 && (a[1] == "--list" || a[1] == "-l"))
	}
	if readOnly && (t.Res.Class == "ok" || t.Res.Class == "error") {
		if d, ok := stateEqual(t.Pre, t.Post); !ok {
			vs = append(vs, Viol{Clause: "observe.read-only", Detail: "a read-only command changed the repository: " + d})
		}
	}
	switch {
	case a[0] == "ls-files" && t.Pre.IndexOK && t.Res.Class == "ok" && (len(a) == 1 || (len(a) == 2 && (a[1] == "-s" || a[1] == "--staged"))):
		var want []string
		for _, e := range t.Pre.Index {
			if len(a) == 2 {
				want = append(want, hx(e.id)+"    "+string(e.path))
			} else {
				want = append(want, string(e.path))
			}
		}
		if got := strings.TrimSuffix(t.Res.Stdout, "\n"); got != strings.Join(want, "\n") {
			vs = append(vs, Viol{Clause: "observe.ls-files", Detail: fmt.Sprintf("%s does not print the staging area as stored (%d entries)", strings.Join(a, " "), len(want))})
		}
	case a[0] == "rev-parse" && len(a) == 2 && configLoads(t.Pre.CfgLocal) && configLoads(t.Pre.CfgGlobal):
		cur, ok := t.Pre.headBranch()
		if !ok {
			return vs
		}
		var want []byte
		if a[1] == "HEAD" {
			want = t.Pre.Branches[cur]
		} else {
			want = t.Pre.Branches[a[1]]
		}
		if want != nil && (t.Res.Class != "ok" || strings.TrimSpace(t.Res.Stdout) != string(want)) {
			if x, isCommit := t.Pre.Objects[string(want)]; isCommit && x.OK && x.Kind == "commit" {
				vs = append(vs, Viol{Clause: "observe.rev-parse", Detail: fmt.Sprintf("rev-parse %q printed %q, stored %q", a[1], strings.TrimSpace(t.Res.Stdout), want)})
			}
		}
	}
	return vs
}

// ---- C19 (command level) ----

// orC19: on any repository, damaged or not, a command ends with exit status 0 or 1 (no panic, no hang), and
// `cat-file` never serves an object whose file does not hold content hashing to the requested id
func orC19(t *Trans) []Viol {
	if len(t.Args) == 0 {
		return nil
	}
	var vs []Viol
	if t.Res.Class == "crash" || t.Res.Class == "hang" {
		vs = append(vs, Viol{Clause: "no-crash", Detail: fmt.Sprintf("%s: %s", t.Res.Class, clip(firstLine(strings.TrimSpace(t.Res.Stderr)), 160))})
	}
	if t.Args[0] == "cat-file" && len(t.Args) == 3 && t.Res.Class == "ok" {
		if x, ok := t.Pre.Objects[t.Args[2]]; ok && !(x.OK && x.NameOK) {
			vs = append(vs, Viol{Clause: "no-wrong-object", Detail: fmt.Sprintf("cat-file %s succeeded on %s although the object file does not hold content hashing to that id", t.Args[1], t.Args[2][:8])})
		}
	}
	return vs
}

// ---- C01 (command level) ----

// orC01: `hash-object` prints the SHA-1 of 'blob <len>\0<bytes>'; `add` stores a blob with exactly the file's
// bytes under that id; `cat-file` gives back kind and bytes; nothing stored before changes or disappears
func orC01(t *Trans) []Viol {
	if len(t.Args) == 0 {
		return nil
	}
	var vs []Viol
	for id, x := range t.Pre.Objects {
		if !x.OK || !x.NameOK {
			continue
		}
		y, ok := t.Post.Objects[id]
		if !ok {
			vs = append(vs, Viol{Clause: "stable", Detail: fmt.Sprintf("object %s disappeared", id[:8])})
		} else if !y.OK || y.Kind != x.Kind || !bytes.Equal(y.Data, x.Data) {
			vs = append(vs, Viol{Clause: "stable", Detail: fmt.Sprintf("stored object %s changed or was damaged", id[:8])})
		}
		if len(vs) > 2 {
			break
		}
	}
	for id, y := range t.Post.Objects {
		if _, was := t.Pre.Objects[id]; !was && (!y.OK || !y.NameOK) {
			vs = append(vs, Viol{Clause: "id", Detail: fmt.Sprintf("new object file %s does not hold content hashing to its name", id[:8])})
		}
	}
	switch t.Args[0] {
	case "hash-object":
		if len(t.Args) != 2 || strings.HasSuffix(t.Args[1], "/") {
			return vs
		}
		data, ok := t.Pre.Files[cleanArg(t.Args[1])]
		if !ok {
			return vs
		}
		if t.Res.Class != "ok" {
			return append(vs, Viol{Clause: "id", Detail: "hash-object of an existing file failed: " + clip(t.Res.Stderr, 100)})
		}
		want := hx(sha1sum(objContent("blob", data)))
		if got := strings.TrimSpace(t.Res.Stdout); got != want {
			vs = append(vs, Viol{Clause: "id", Detail: fmt.Sprintf("hash-object printed %s, SHA-1 of 'blob %d\\0…' is %s", got, len(data), want)})
		}
	case "cat-file":
		if len(t.Args) != 3 || (t.Args[1] != "-t" && t.Args[1] != "-p") {
			return vs
		}
		x, ok := t.Pre.Objects[t.Args[2]]
		if !ok || !x.OK || !x.NameOK {
			return vs
		}
		if t.Res.Class != "ok" {
			return append(vs, Viol{Clause: "roundtrip", Detail: fmt.Sprintf("cat-file %s of the stored %s %s failed: %s", t.Args[1], x.Kind, t.Args[2][:8], clip(t.Res.Stderr, 100))})
		}
		if t.Args[1] == "-t" {
			if strings.TrimSpace(t.Res.Stdout) != x.Kind {
				vs = append(vs, Viol{Clause: "roundtrip", Detail: fmt.Sprintf("cat-file -t says %q, the object is a %s", strings.TrimSpace(t.Res.Stdout), x.Kind)})
			}
		} else if x.Kind != "tree" && !strings.Contains(string(x.Data), "\x1b") {
			if t.Res.Stdout != string(x.Data)+"\n" {
				vs = append(vs, Viol{Clause: "roundtrip", Detail: fmt.Sprintf("cat-file -p of %s %s does not print its %d bytes", x.Kind, t.Args[2][:8], len(x.Data))})
			}
		}
	case "add":
		if t.Res.Class != "ok" {
			return vs
		}
		for _, e := range t.Post.Index {
			data, on := t.Pre.Files[string(e.path)]
			if !on || hx(e.id) != hx(sha1sum(objContent("blob", data))) {
				continue
			}
			if y, ok := t.Post.Objects[hx(e.id)]; !ok || y.Kind != "blob" || !bytes.Equal(y.Data, data) {
				vs = append(vs, Viol{Clause: "roundtrip", Detail: fmt.Sprintf("after add, %q is staged as %s but no blob with the file's bytes is stored under that id", e.path, hx(e.id)[:8])})
			}
		}
	}
	return vs
}

// ---- C07 ----

func orC07(t *Trans) []Viol {
	if len(t.Args) == 0 {
		return nil
	}
	var vs []Viol
	switch t.Args[0] {
	case "status":
		if len(t.Args) != 1 || t.Res.Class != "ok" {
			return nil
		}
		want, ok := stagedDiff(t.Pre)
		if !ok {
			return nil
		}
		got := parseStatus(t.Res.Stdout).Staged
		if d, ok := mapsEqual(want, got); !ok {
			vs = append(vs, Viol{Clause: "status-exact", Detail: "'Changes to be committed' differs from index vs HEAD snapshot: " + d})
		}
	case "commit":
		want, ok := stagedDiff(t.Pre)
		if !ok {
			return nil
		}
		ident := identityAccepted(t.Pre)
		if len(want) == 0 {
			if t.Res.Class == "ok" {
				vs = append(vs, Viol{Clause: "refuse-noop", Detail: "commit succeeded although the staging area equals the HEAD snapshot"})
			} else if d, ok := stateEqual(t.Pre, t.Post); !ok && t.Res.Class == "error" {
				vs = append(vs, Viol{Clause: "refuse-noop", Detail: "refused commit changed the repository: " + d})
			}
		} else if ident && t.Res.Class == "error" {
			if _, hasMsg := msgFlag(t.Args); hasMsg || len(t.Args) == 1 {
				vs = append(vs, Viol{Clause: "commit-if-diff", Detail: fmt.Sprintf("commit refused although %d staged differences exist: %s", len(want), clip(t.Res.Stderr, 120))})
			}
		}
	}
	return vs
}

// ---- C13 ----

func orC13(t *Trans) []Viol {
	if len(t.Args) != 1 || t.Args[0] != "status" || t.Res.Class != "ok" {
		return nil
	}
	var vs []Viol
	o := t.Pre
	st := parseStatus(t.Res.Stdout)
	idx := idxMap(o.Index)
	var wantMod, wantDel []string
	for p, id := range idx {
		if data, ok := o.Files[p]; ok {
			if blobID(data) != id {
				wantMod = append(wantMod, p)
			}
		} else if !isDirIn(o, p) {
			// nothing at that path; a path whose parent is a *file* is also missing
			wantDel = append(wantDel, p)
		}
	}
	sort.Strings(wantMod)
	sort.Strings(wantDel)
	if strings.Join(wantMod, "\n") != strings.Join(st.Modified, "\n") {
		vs = append(vs, Viol{Clause: "modified", Detail: fmt.Sprintf("reported modified %q, specification %q", st.Modified, wantMod)})
	}
	if strings.Join(wantDel, "\n") != strings.Join(st.Deleted, "\n") {
		vs = append(vs, Viol{Clause: "deleted", Detail: fmt.Sprintf("reported deleted %q, specification %q", st.Deleted, wantDel)})
	}
	listed := map[string]bool{}
	for _, u := range st.Untracked {
		listed[u] = true
		if _, tr := idx[u]; tr {
			vs = append(vs, Viol{Clause: "untracked", Detail: fmt.Sprintf("tracked file %q listed as untracked", u)})
		}
		if ignoredStrict(o, u) {
			vs = append(vs, Viol{Clause: "untracked", Detail: fmt.Sprintf("ignored or internal path %q listed as untracked", u)})
		}
		if _, ok := o.Files[u]; !ok {
			vs = append(vs, Viol{Clause: "untracked", Detail: fmt.Sprintf("%q listed as untracked but is not a file on disk", u)})
		}
	}
	for p := range o.Files {
		if _, tr := idx[p]; !tr && !ignoredLoose(o, p) && !listed[p] {
			vs = append(vs, Viol{Clause: "untracked", Detail: fmt.Sprintf("untracked, non-ignored file %q is not listed", p)})
		}
	}
	return vs
}

// ---- reflog listing ----

type reflogLine struct {
	Pos  int
	Hash string
	Kind string
	Msg  string
}

var reflogRe = regexp.MustCompile(`^([0-9a-f]{7}) (?:\(.*?\) )?HEAD@\{(\d+)\}: ([a-z]+): (.*)$`)

func parseReflogOut(s string) ([]reflogLine, bool) {
	var out []reflogLine
	for _, l := range strings.Split(strings.TrimRight(s, "\n"), "\n") {
		if l == "" {
			continue
		}
		m := reflogRe.FindStringSubmatch(l)
		if m == nil {
			return out, false
		}
		var pos int
		fmt.Sscanf(m[2], "%d", &pos)
		out = append(out, reflogLine{pos, m[1], m[3], m[4]})
	}
	return out, true
}

var resetArgRe = regexp.MustCompile(`^HEAD@\{(\d+)\}$`)

// resolve a 7-digit prefix to the stored commit with that prefix (unique in these small stores)
func resolvePrefix(o *Obs, p string) (string, bool) {
	var hit []string
	for id, x := range o.Objects {
		if strings.HasPrefix(id, p) && x.Kind == "commit" {
			hit = append(hit, id)
		}
	}
	if len(hit) == 1 {
		return hit[0], true
	}
	return "", false
}

// ---- C08 ----

func resetMode(args []string) (mode string, rest []string, ok bool) {
	n := 0
	mode = "mixed"
	for _, a := range args {
		switch a {
		case "--soft":
			mode = "soft"
			n++
		case "--mixed":
			n++
		case "--hard":
			mode = "hard"
			n++
		default:
			if strings.HasPrefix(a, "--") {
				return "", nil, false
			}
			rest = append(rest, a)
		}
	}
	return mode, rest, n <= 1
}

// hardBlocked: some path of the snapshot cannot be created in the working tree as it is (the path is a
// directory, or one of its parent names is a file on disk or a file of the snapshot itself)
func hardBlocked(o *Obs, es []ent) bool {
	dirs := map[string]bool{}
	for _, d := range o.Dirs {
		dirs[d] = true
	}
	snap := map[string]bool{}
	for _, e := range es {
		snap[string(e.path)] = true
	}
	for _, e := range es {
		p := string(e.path)
		if dirs[p] {
			return true
		}
		for i := 0; i < len(p); i++ {
			if p[i] == '/' {
				// a parent name is a file on disk, or is itself a file of the snapshot (a snapshot that holds both
				// `a` and `a/b` cannot be written out at all)
				if _, isFile := o.Files[p[:i]]; isFile || snap[p[:i]] {
					return true
				}
			}
		}
	}
	return false
}

func orC08(t *Trans) []Viol {
	if len(t.Args) == 0 || t.Args[0] != "reset" {
		return nil
	}
	var vs []Viol
	add := func(c, d string) { vs = append(vs, Viol{Clause: c, Detail: d}) }
	mode, rest, flagsOK := resetMode(t.Args[1:])
	if !flagsOK {
		return nil
	}
	listing := t.G.ReflogPrev
	valid := false
	var target string
	if len(rest) == 1 && listing != nil {
		if m := resetArgRe.FindStringSubmatch(rest[0]); m != nil && len(m[1]) < 9 {
			var n int
			fmt.Sscanf(m[1], "%d", &n)
			if n < len(listing) && listing[n].Hash != "0000000" {
				if id, ok := resolvePrefix(t.Pre, listing[n].Hash); ok {
					valid, target = true, id
				}
			}
		}
	}
	if listing == nil {
		return nil
	}
	if !valid {
		if t.Res.Class == "ok" {
			add("refuse", fmt.Sprintf("reset %v succeeded although the argument is malformed, out of range or names an entry without a commit", rest))
		} else if d, ok := stateEqual(t.Pre, t.Post); !ok {
			add("refuse", "refused reset changed the repository: "+d)
		}
		return vs
	}
	br, _ := t.Pre.headBranch()
	if t.Res.Class != "ok" {
		// a blocked --hard (a file occupies a directory name of the snapshot, or a directory occupies a file
		// name) is left unconstrained; any other failure of a valid --hard is a violation
		if mode == "hard" {
			if es, _, ok := t.Pre.commitSnapshot(target); ok && !hardBlocked(t.Pre, es) {
				add("hard", fmt.Sprintf("valid reset --hard %s to %s failed although every path of the snapshot can be written: %s", rest[0], target[:7], clip(t.Res.Stderr, 160)))
			}
			return vs
		}
		add("target", fmt.Sprintf("valid reset --%s %s to %s was refused: %s", mode, rest[0], target[:7], clip(t.Res.Stderr, 120)))
		return vs
	}
	if string(t.Post.Branches[br]) != target {
		add("target", fmt.Sprintf("branch %q now holds %q, reflog displayed %s at that position", br, t.Post.Branches[br], target))
	}
	if !bytes.Equal(t.Pre.Head, t.Post.Head) {
		add("target", "HEAD no longer names the same branch")
	}
	for n, v := range t.Pre.Branches {
		if n != br && !bytes.Equal(t.Post.Branches[n], v) {
			add("target", fmt.Sprintf("other branch %q changed", n))
		}
	}
	snapEs, _, ok := t.Post.commitSnapshot(target)
	if !ok {
		return vs
	}
	snap := idxMap(snapEs)
	switch mode {
	case "soft":
		if !bytes.Equal(t.Pre.IndexRaw, t.Post.IndexRaw) {
			add("soft", "--soft changed the staging area")
		}
		if d, ok := filesEqual(t.Pre.Files, t.Post.Files); !ok {
			add("soft", "--soft changed the working tree: "+d)
		}
	case "mixed":
		if d, ok := mapsEqual(snap, idxMap(t.Post.Index)); !ok {
			add("mixed", "staging area differs from the target snapshot: "+d)
		}
		if d, ok := filesEqual(t.Pre.Files, t.Post.Files); !ok {
			add("mixed", "--mixed changed the working tree: "+d)
		}
	case "hard":
		if d, ok := mapsEqual(snap, idxMap(t.Post.Index)); !ok {
			add("hard", "staging area differs from the target snapshot: "+d)
		}
		for p, id := range snap {
			x := t.Post.Objects[id]
			if x == nil {
				continue
			}
			if data, ok := t.Post.Files[p]; !ok {
				add("hard", fmt.Sprintf("snapshot file %q does not exist after --hard", p))
			} else if !bytes.Equal(data, x.Data) {
				add("hard", fmt.Sprintf("snapshot file %q does not hold the committed bytes", p))
			}
		}
		preIdx := idxMap(t.Pre.Index)
		preSnap, _ := headSnapshot(t.Pre)
		for p, data := range t.Pre.Files {
			if _, a := snap[p]; a {
				continue
			}
			if _, b := preIdx[p]; b {
				continue
			}
			if _, c := preSnap[p]; c {
				continue
			}
			if w, ok := t.Post.Files[p]; !ok || !bytes.Equal(w, data) {
				add("hard", fmt.Sprintf("never-tracked file %q was touched", p))
			}
		}
	}
	return vs
}

// ---- C05: reading a snapshot back ----

func orC05(t *Trans) []Viol {
	if len(t.Args) == 0 {
		return nil
	}
	var vs []Viol
	switch t.Args[0] {
	case "cat-file":
		if len(t.Args) == 3 && t.Args[1] == "-p" && t.Res.Class == "ok" {
			x, ok := t.Pre.Objects[t.Args[2]]
			if !ok || !x.OK || x.Kind != "tree" {
				return nil
			}
			items, ok := parseTree(x.Data)
			if !ok {
				return nil
			}
			var want []string
			for _, it := range items {
				if it.Mode == "040000" {
					want = append(want, "040000 tree "+hx(it.ID)+"\t"+it.Name)
				} else {
					want = append(want, "100644 blob "+hx(it.ID)+"\t"+it.Name)
				}
			}
			if got := strings.TrimSuffix(t.Res.Stdout, "\n"); got != strings.Join(want, "\n") {
				vs = append(vs, Viol{Clause: "cat-tree", Detail: fmt.Sprintf("cat-file -p of tree %s printed %q, the tree holds %q", t.Args[2][:7], clip(got, 200), clip(strings.Join(want, "\n"), 200))})
			}
		}
		if len(t.Args) == 3 && t.Args[1] == "-p" && t.Res.Class != "ok" {
			if x, ok := t.Pre.Objects[t.Args[2]]; ok && x.OK && x.NameOK && x.Kind == "tree" {
				vs = append(vs, Viol{Clause: "cat-tree", Detail: "cat-file -p failed on a well-formed stored tree " + t.Args[2][:7]})
			}
		}
	case "ls-files":
		if len(t.Args) == 2 && t.Args[1] == "-s" && t.Res.Class == "ok" {
			var want []string
			for _, e := range t.Pre.Index {
				want = append(want, hx(e.id)+"    "+string(e.path))
			}
			got := strings.TrimSuffix(t.Res.Stdout, "\n")
			if got != strings.Join(want, "\n") {
				vs = append(vs, Viol{Clause: "reset-readback", Detail: "ls-files -s does not print the staging area as stored"})
			}
		}
	}
	return vs
}

// overlapping arguments (one names the other or something beneath it) make the outcome depend on the
// order of processing; the specifications constrain only the frame in that case
func argsOverlap(args []string) bool {
	for i, a := range args {
		for j, b := range args {
			if i != j {
				ca, cb := cleanArg(a), cleanArg(b)
				if ca == cb || under(ca, cb) || ca == "." {
					return true
				}
			}
		}
	}
	return false
}

// ---- C09: restore ----

func orC09(t *Trans) []Viol {
	if len(t.Args) == 0 || t.Args[0] != "restore" {
		return nil
	}
	var vs []Viol
	add := func(c, d string) { vs = append(vs, Viol{Clause: c, Detail: d}) }
	staged := false
	var args []string
	for _, a := range t.Args[1:] {
		if a == "--staged" {
			staged = true
		} else {
			args = append(args, a)
		}
	}
	if len(args) == 0 {
		return nil
	}
	pre := idxMap(t.Pre.Index)
	if !staged {
		// working-tree mode
		if !bytes.Equal(t.Pre.IndexRaw, t.Post.IndexRaw) {
			add("work.frame", "restore (working tree) changed the staging area")
		}
		named := map[string]bool{}
		allKnown := true
		for _, a := range args {
			p := cleanArg(a)
			hit := false
			if _, ok := pre[p]; ok {
				named[p] = true
				hit = true
			}
			for q := range pre {
				if under(p, q) {
					named[q] = true
					hit = true
				}
			}
			if !hit {
				allKnown = false
			}
		}
		for p, data := range t.Pre.Files {
			if named[p] {
				continue
			}
			if w, ok := t.Post.Files[p]; !ok || !bytes.Equal(w, data) {
				add("work.frame", fmt.Sprintf("file %q, not a named tracked path, was touched", p))
			}
		}
		for p := range t.Post.Files {
			if _, ok := t.Pre.Files[p]; !ok && !named[p] {
				add("work.frame", fmt.Sprintf("file %q appeared", p))
			}
		}
		if argsOverlap(args) {
			return vs
		}
		if !allKnown {
			if t.Res.Class == "ok" {
				add("unknown-refused", "restore succeeded although an argument is known to neither the staging area nor (as directory) any tracked path")
			}
			return vs
		}
		// a named path blocked by an untracked file/directory in the way is left unconstrained
		for p := range named {
			for q := range t.Pre.Files {
				if under(q, p) {
					return vs
				}
			}
			if isDirIn(t.Pre, p) {
				return vs
			}
			// two named tracked paths of which one would have to be a directory for the other (`a` and
			// `a/b` both staged): they cannot both exist on disk, the outcome is left unconstrained
			for q := range named {
				if under(q, p) {
					return vs
				}
			}
		}
		if t.Res.Class != "ok" {
			add("work.restored", "restore of tracked paths was refused: "+clip(t.Res.Stderr, 160))
			return vs
		}
		for p := range named {
			x := t.Pre.Objects[pre[p]]
			if x == nil {
				continue
			}
			if data, ok := t.Post.Files[p]; !ok {
				add("work.restored", fmt.Sprintf("tracked file %q was not recreated", p))
			} else if !bytes.Equal(data, x.Data) {
				add("work.restored", fmt.Sprintf("tracked file %q does not hold its staged bytes", p))
			}
		}
		return vs
	}
	// --staged
	if d, ok := filesEqual(t.Pre.Files, t.Post.Files); !ok {
		add("staged.frame", "restore --staged changed the working tree: "+d)
	}
	if t.Pre.headCommit() == "" {
		return vs
	}
	snap, ok := headSnapshot(t.Pre)
	if !ok {
		return vs
	}
	named := map[string]bool{}
	allKnown := true
	for _, a := range args {
		p := cleanArg(a)
		hit := false
		_, inI := pre[p]
		_, inS := snap[p]
		if inI || inS {
			named[p] = true
			hit = true
		}
		for q := range pre {
			if under(p, q) {
				named[q] = true
				hit = true
			}
		}
		for q := range snap {
			if under(p, q) {
				named[q] = true
				hit = true
			}
		}
		if !hit {
			allKnown = false
		}
	}
	got := idxMap(t.Post.Index)
	for p, id := range pre {
		if !named[p] && got[p] != id {
			add("staged.frame", fmt.Sprintf("entry %q, not named, changed", p))
		}
	}
	for p := range got {
		if _, ok := pre[p]; !ok && !named[p] {
			add("staged.frame", fmt.Sprintf("entry %q, not named, appeared", p))
		}
	}
	if argsOverlap(args) {
		return vs
	}
	if !allKnown {
		if t.Res.Class == "ok" {
			add("unknown-refused", "restore --staged succeeded although an argument is known neither to the staging area nor to HEAD")
		}
		return vs
	}
	if t.Res.Class != "ok" {
		add("staged.restored", "restore --staged of known paths was refused: "+clip(t.Res.Stderr, 160))
		return vs
	}
	for p := range named {
		want, inS := snap[p]
		g, inG := got[p]
		if inS && (!inG || g != want) {
			add("staged.restored", fmt.Sprintf("entry %q is not its HEAD entry after restore --staged", p))
		}
		if !inS && inG {
			add("staged.restored", fmt.Sprintf("entry %q absent from HEAD is still staged", p))
		}
	}
	return vs
}

// ---- C10: branch / HEAD state machine ----

var safeBranchRe = regexp.MustCompile(`^[A-Za-z0-9_.-]+$`)

func safeBranch(n string) bool {
	return safeBranchRe.MatchString(n) && n != "." && n != ".." && !strings.HasPrefix(n, "-")
}

func isCommitID(o *Obs, id string) bool {
	x, ok := o.Objects[id]
	return ok && x.OK && x.Kind == "commit"
}

func orC10(t *Trans) []Viol {
	if len(t.Args) == 0 {
		return nil
	}
	var vs []Viol
	add := func(c, d string) { vs = append(vs, Viol{Clause: c, Detail: d}) }
	pre, post := t.Pre, t.Post
	cur, _ := pre.headBranch()
	tip := pre.headCommit()
	expectBranches := func(clause string, want map[string][]byte) {
		if d, ok := filesEqual(want, post.Branches); !ok {
			add(clause, "branches after the command differ from the specification: "+strings.Replace(d, "file", "branch", 1))
		}
	}
	copyB := func() map[string][]byte {
		m := map[string][]byte{}
		for k, v := range pre.Branches {
			m[k] = v
		}
		return m
	}
	refused := func(clause, why string) {
		if t.Res.Class == "ok" {
			add(clause, "command succeeded although "+why)
		} else if d, ok := stateEqual(pre, post); !ok {
			add("refused-unchanged", "refused command changed the repository: "+d)
		}
	}
	frame := func() {
		if !bytes.Equal(pre.IndexRaw, post.IndexRaw) {
			add("others-keep", "staging area changed")
		}
		if d, ok := filesEqual(pre.Files, post.Files); !ok {
			add("others-keep", d)
		}
	}
	a := t.Args
	switch {
	case a[0] == "branch" && len(a) == 2 && !strings.HasPrefix(a[1], "-"):
		n := a[1]
		if !safeBranch(n) {
			return nil
		}
		if _, ex := pre.Branches[n]; ex {
			refused("dup-refused", "the branch already exists")
		} else if tip == "" {
			refused("create", "there is no commit to create the branch at")
		} else if t.Res.Class != "ok" {
			add("create", "creating a new branch was refused: "+clip(t.Res.Stderr, 120))
		} else {
			w := copyB()
			w[n] = []byte(tip)
			expectBranches("create", w)
			if !bytes.Equal(pre.Head, post.Head) {
				add("create", "HEAD changed")
			}
			frame()
		}
	case a[0] == "branch" && len(a) == 3 && (a[1] == "-d" || a[1] == "--delete"):
		n := a[2]
		if _, ex := pre.Branches[n]; !ex {
			refused("delete", "the branch does not exist")
		} else if n == cur {
			refused("delete", "it is the current branch")
		} else if t.Res.Class != "ok" {
			add("delete", "deleting an existing non-current branch was refused: "+clip(t.Res.Stderr, 120))
		} else {
			w := copyB()
			delete(w, n)
			expectBranches("delete", w)
			if !bytes.Equal(pre.Head, post.Head) {
				add("delete", "HEAD changed")
			}
			frame()
		}
	case a[0] == "branch" && len(a) == 3 && (a[1] == "-r" || a[1] == "--rename"):
		n := a[2]
		if !safeBranch(n) {
			return nil
		}
		if _, ex := pre.Branches[n]; ex {
			refused("dup-refused", "a branch of that name already exists")
		} else if _, ex := pre.Branches[cur]; !ex {
			refused("rename", "the current branch does not exist yet")
		} else if t.Res.Class != "ok" {
			add("rename", "renaming the current branch was refused: "+clip(t.Res.Stderr, 120))
		} else {
			w := copyB()
			w[n] = w[cur]
			delete(w, cur)
			expectBranches("rename", w)
			if b, _ := post.headBranch(); b != n {
				add("rename", fmt.Sprintf("HEAD names %q, not the new name %q", b, n))
			}
			frame()
		}
	case a[0] == "switch" && len(a) == 2 && !strings.HasPrefix(a[1], "-"):
		n := a[1]
		if _, ex := pre.Branches[n]; !ex {
			refused("switch", "the branch does not exist")
		} else if t.Res.Class != "ok" {
			add("switch", "switch to an existing branch was refused: "+clip(t.Res.Stderr, 120))
		} else {
			expectBranches("switch", copyB())
			if b, _ := post.headBranch(); b != n {
				add("switch", fmt.Sprintf("HEAD names %q after switch %q", b, n))
			}
			frame()
		}
	case a[0] == "switch" && len(a) == 3 && (a[1] == "-c" || a[1] == "--create"):
		n := a[2]
		if !safeBranch(n) {
			return nil
		}
		if _, ex := pre.Branches[n]; ex {
			refused("dup-refused", "the branch already exists")
		} else if tip == "" {
			refused("switch-c", "there is no commit to create the branch at")
		} else if t.Res.Class != "ok" {
			add("switch-c", "switch -c to a new name was refused: "+clip(t.Res.Stderr, 120))
		} else {
			w := copyB()
			w[n] = []byte(tip)
			expectBranches("switch-c", w)
			if b, _ := post.headBranch(); b != n {
				add("switch-c", fmt.Sprintf("HEAD names %q after switch -c %q", b, n))
			}
			frame()
		}
	case a[0] == "update-ref" && len(a) == 3:
		if !strings.HasPrefix(a[1], "refs/heads/") {
			return nil
		}
		n := strings.TrimPrefix(a[1], "refs/heads/")
		if strings.Contains(n, "/") || n == "" {
			return nil
		}
		_, ex := pre.Branches[n]
		if !ex {
			refused("update-ref", "the branch does not exist")
		} else if !isCommitID(pre, a[2]) {
			refused("update-ref", "the id is not an existing commit")
		} else if t.Res.Class != "ok" {
			add("update-ref", "update-ref of an existing branch to an existing commit was refused: "+clip(t.Res.Stderr, 120))
		} else {
			w := copyB()
			w[n] = []byte(a[2])
			expectBranches("update-ref", w)
			frame()
		}
	case a[0] == "rev-parse" && len(a) == 2:
		n := a[1]
		var want []byte
		if n == "HEAD" {
			want = pre.Branches[cur]
		} else {
			want = pre.Branches[n]
		}
		if want == nil {
			if strings.EqualFold(n, "head") {
				return nil
			}
			if t.Res.Class == "ok" {
				add("revparse-faithful", fmt.Sprintf("rev-parse %q succeeded for an unknown name", n))
			}
		} else if t.Res.Class != "ok" || strings.TrimSpace(t.Res.Stdout) != string(want) {
			add("revparse-faithful", fmt.Sprintf("rev-parse %q printed %q, stored %q", n, strings.TrimSpace(t.Res.Stdout), want))
		}
	case a[0] == "branch" && len(a) == 2 && (a[1] == "--list" || a[1] == "-l"):
		if t.Res.Class != "ok" {
			add("list-faithful", "branch --list failed")
			return vs
		}
		var want []string
		for _, n := range sortedKeys(pre.Branches) {
			if n == cur {
				want = append(want, "* "+n)
			} else {
				want = append(want, n)
			}
		}
		got := strings.TrimSuffix(t.Res.Stdout, "\n")
		if got != strings.Join(want, "\n") {
			add("list-faithful", fmt.Sprintf("branch --list printed %q, stored %q", got, strings.Join(want, "\n")))
		}
	}
	return vs
}

// ---- C14: log ----

type logItem struct {
	ID, Author, Date, Msg string
}

var logDateRe = regexp.MustCompile(`^(\d{4}-\d\d-\d\d \d\d:\d\d:\d\d) ([+-]\d{4})`)
var logHeadRe = regexp.MustCompile(`(?m)^commit ([0-9a-f]{40})\nAuthor: (.*)\nDate: (.*)\n\n\t`)

func parseLogOut(s string) []logItem {
	var out []logItem
	locs := logHeadRe.FindAllStringSubmatchIndex(s, -1)
	for i, l := range locs {
		end := len(s)
		if i+1 < len(locs) {
			end = locs[i+1][0]
		}
		msg := s[l[1]:end]
		msg = strings.TrimSuffix(msg, "\n\n")
		out = append(out, logItem{s[l[2]:l[3]], s[l[4]:l[5]], s[l[6]:l[7]], msg})
	}
	return out
}

func orC14(t *Trans) []Viol {
	if len(t.Args) == 0 || t.Args[0] != "log" {
		return nil
	}
	k := 5
	if len(t.Args) == 3 && t.Args[1] == "-n" {
		// the flag library parses integers with base 0 (010 = 8, 0x10 = 16, 1_0 = 10, +3 = 3)
		v, err := strconv.ParseInt(t.Args[2], 0, 64)
		if err != nil {
			return nil
		}
		if v > 1<<40 {
			v = 1 << 40
		}
		k = int(v)
	} else if len(t.Args) != 1 {
		return nil
	}
	tip := t.Pre.headCommit()
	if tip == "" || len(t.Pre.Branches) == 0 {
		return nil
	}
	var vs []Viol
	if t.Res.Class != "ok" {
		return []Viol{{Clause: "list", Detail: "log failed on a repository with commits: " + clip(t.Res.Stderr, 120)}}
	}
	// the chain of parents from HEAD
	var chain []string
	seen := map[string]bool{}
	for id := tip; id != "" && !seen[id] && len(chain) < 10000; {
		seen[id] = true
		x, ok := t.Pre.Objects[id]
		if !ok || x.Kind != "commit" {
			break
		}
		chain = append(chain, id)
		ci := parseCommit(x.Data)
		if len(ci.Parents) == 0 {
			break
		}
		id = ci.Parents[0]
	}
	if k < 0 {
		k = 0
	}
	if k < len(chain) {
		chain = chain[:k]
	}
	got := parseLogOut(t.Res.Stdout)
	var gotIDs []string
	for _, g := range got {
		gotIDs = append(gotIDs, g.ID)
	}
	if strings.Join(gotIDs, ",") != strings.Join(chain, ",") {
		return []Viol{{Clause: "list", Detail: fmt.Sprintf("log printed %d commits %v, the first %d of the parent chain are %v", len(got), short(gotIDs), k, short(chain))}}
	}
	for i, g := range got {
		ci := parseCommit(t.Pre.Objects[chain[i]].Data)
		if j := strings.LastIndex(ci.Author, "> "); j >= 0 {
			if g.Author != ci.Author[:j+1] {
				vs = append(vs, Viol{Clause: "list", Detail: fmt.Sprintf("commit %s printed with author %q, stored %q", g.ID[:7], g.Author, ci.Author[:j+1])})
			}
		}
		if g.Msg != ci.Message {
			vs = append(vs, Viol{Clause: "list", Detail: fmt.Sprintf("commit %s printed with message %q, stored %q", g.ID[:7], clip(g.Msg, 60), clip(ci.Message, 60))})
		}
		// the date line shows the stored instant at the stored UTC offset (whatever zone `log` runs in)
		if f := strings.Fields(ci.Author); len(f) >= 2 {
			var secs int64
			if _, err := fmt.Sscanf(f[len(f)-2], "%d", &secs); err == nil {
				zone := f[len(f)-1]
				if m := logDateRe.FindStringSubmatch(g.Date); m == nil {
					vs = append(vs, Viol{Clause: "list", Detail: fmt.Sprintf("commit %s printed with an unreadable date %q", g.ID[:7], g.Date)})
				} else if len(zone) == 5 {
					var y, mo, d, hh, mm, ss int
					fmt.Sscanf(m[1], "%d-%d-%d %d:%d:%d", &y, &mo, &d, &hh, &mm, &ss)
					var zh, zm int
					fmt.Sscanf(zone[1:], "%02d%02d", &zh, &zm)
					off := zh*3600 + zm*60
					if zone[0] == '-' {
						off = -off
					}
					shown := time.Date(y, time.Month(mo), d, hh, mm, ss, 0, time.UTC).Unix() - int64(off)
					if m[2] != zone || shown != secs {
						vs = append(vs, Viol{Clause: "list", Detail: fmt.Sprintf("commit %s printed with date %q, stored instant %d at %s", g.ID[:7], g.Date, secs, zone)})
					}
				}
			}
		}
	}
	return vs
}

func short(ids []string) []string {
	var o []string
	for _, i := range ids {
		if len(i) > 7 {
			i = i[:7]
		}
		o = append(o, i)
	}
	return o
}

// ---- C17 ----

func orC17(t *Trans) []Viol {
	var vs []Viol
	if len(t.Args) == 0 {
		return nil
	}
	for _, e := range t.Post.Index {
		p := string(e.path)
		if p == ".goit" || strings.HasPrefix(p, ".goit/") {
			vs = append(vs, Viol{Clause: "no-meta", Detail: fmt.Sprintf("metadata path %q is staged", p)})
			break
		}
	}
	switch t.Args[0] {
	case "add":
		pre := idxMap(t.Pre.Index)
		for _, e := range t.Post.Index {
			p := string(e.path)
			if id, ok := pre[p]; ok && id == hx(e.id) {
				continue
			}
			if ignoredStrict(t.Pre, p) && !strings.HasPrefix(p, ".goit/") {
				vs = append(vs, Viol{Clause: "no-ignored", Detail: fmt.Sprintf("add newly staged %q, which .goitignore excludes", p)})
			}
		}
		// nothing outside .goit is skipped when there is no .goitignore
		if t.Res.Class == "ok" && len(ignoreLines(t.Pre)) == 0 {
			got := idxMap(t.Post.Index)
			for _, a := range t.Args[1:] {
				c := cleanArg(a)
				for p := range t.Pre.Files {
					if (c == "." || c == p || under(c, p)) && !strings.HasPrefix(p, ".goit/") {
						if _, ok := got[p]; !ok {
							vs = append(vs, Viol{Clause: "nothing-hidden", Detail: fmt.Sprintf("file %q named by add was not staged although nothing ignores it", p)})
						}
					}
				}
			}
		}
	case "status":
		if t.Res.Class == "ok" && len(t.Args) == 1 {
			st := parseStatus(t.Res.Stdout)
			for _, u := range st.Untracked {
				if ignoredStrict(t.Pre, u) {
					vs = append(vs, Viol{Clause: "status-hides", Detail: fmt.Sprintf("status lists ignored/internal path %q", u)})
				}
			}
			if len(ignoreLines(t.Pre)) == 0 {
				listed := map[string]bool{}
				for _, u := range st.Untracked {
					listed[u] = true
				}
				idx := idxMap(t.Pre.Index)
				for p := range t.Pre.Files {
					if _, tr := idx[p]; !tr && !listed[p] {
						vs = append(vs, Viol{Clause: "nothing-hidden", Detail: fmt.Sprintf("untracked file %q is hidden although there is no .goitignore", p)})
					}
				}
			}
		}
	}
	return vs
}

// ---- C20: config ----

var cfgValRe = regexp.MustCompile(`^[^\s[:cntrl:]]+( [^\s[:cntrl:]]+)*$`)

func orC20(t *Trans) []Viol {
	if len(t.Args) == 0 {
		return nil
	}
	var vs []Viol
	switch t.Args[0] {
	case "config":
		global := false
		var args []string
		for _, a := range t.Args[1:] {
			if a == "--global" {
				global = true
			} else {
				args = append(args, a)
			}
		}
		// whatever was asked for: an accepted `config` must leave files that Goit still loads, otherwise every
		// key set before is lost to all later commands
		if t.Res.Class == "ok" && configLoads(t.Pre.CfgLocal) && configLoads(t.Pre.CfgGlobal) &&
			(!configLoads(t.Post.CfgLocal) || !configLoads(t.Post.CfgGlobal)) {
			return []Viol{{Clause: "set-frame", Detail: fmt.Sprintf("config %q %q was accepted and left a configuration file that no longer loads", args[0], strings.Join(args[1:], " "))}}
		}
		if len(args) != 2 || strings.Count(args[0], ".") != 1 {
			return nil
		}
		sk := strings.SplitN(args[0], ".", 2)
		if !cfgValRe.MatchString(args[1]) || !regexp.MustCompile(`^[A-Za-z][A-Za-z0-9]*$`).MatchString(sk[0]) || !regexp.MustCompile(`^[A-Za-z][A-Za-z0-9]*$`).MatchString(sk[1]) {
			return nil
		}
		if t.Res.Class != "ok" {
			return []Viol{{Clause: "roundtrip", Detail: "config set was refused: " + clip(t.Res.Stderr, 100)}}
		}
		preF, postF := t.Pre.CfgLocal, t.Post.CfgLocal
		otherPre, otherPost := t.Pre.CfgGlobal, t.Post.CfgGlobal
		if global {
			preF, postF, otherPre, otherPost = otherPre, otherPost, preF, postF
		}
		if !bytes.Equal(otherPre, otherPost) {
			vs = append(vs, Viol{Clause: "set-frame", Detail: "the other configuration file changed"})
		}
		was := parseConfigFile(preF)
		now := parseConfigFile(postF)
		if now[sk[0]][sk[1]] != args[1] {
			vs = append(vs, Viol{Clause: "roundtrip", Detail: fmt.Sprintf("%s.%s reads back as %q after being set to %q", sk[0], sk[1], now[sk[0]][sk[1]], args[1])})
		}
		for s, kv := range was {
			for k, v := range kv {
				if s == sk[0] && k == sk[1] {
					continue
				}
				if now[s][k] != v {
					vs = append(vs, Viol{Clause: "set-frame", Detail: fmt.Sprintf("setting %s altered %s.%s: %q -> %q", args[0], s, k, v, now[s][k])})
				}
			}
		}
		for s, kv := range now {
			for k := range kv {
				if _, ok := was[s][k]; !ok && !(s == sk[0] && k == sk[1]) {
					vs = append(vs, Viol{Clause: "set-frame", Detail: fmt.Sprintf("setting %s created %s.%s", args[0], s, k)})
				}
			}
		}
	case "commit":
		_, _, ident := t.Pre.identity()
		if !ident {
			if t.Res.Class == "ok" {
				vs = append(vs, Viol{Clause: "identity-gate", Detail: "commit succeeded without a configured name and e-mail"})
			} else if d, ok := stateEqual(t.Pre, t.Post); !ok {
				vs = append(vs, Viol{Clause: "identity-gate", Detail: "commit refused for missing identity changed the repository: " + d})
			}
		} else if t.Res.Class == "ok" {
			// precedence: the author is the effective identity (local over global)
			name, email, _ := t.Pre.identity()
			if id := t.Post.headCommit(); id != "" {
				if x, ok := t.Post.Objects[id]; ok {
					ci := parseCommit(x.Data)
					if !strings.HasPrefix(ci.Author, name+" <"+email+"> ") {
						vs = append(vs, Viol{Clause: "precedence", Detail: fmt.Sprintf("author line %q does not carry the effective identity %q <%s>", ci.Author, name, email)})
					}
				}
			}
		}
	}
	return vs
}

// ---- C12: commit metadata in every time zone ----

func zoneString(off int) string {
	sign := "+"
	if off < 0 {
		sign = "-"
		off = -off
	}
	return fmt.Sprintf("%s%02d%02d", sign, off/3600, (off/60)%60)
}

func orC12(t *Trans) []Viol {
	if len(t.Args) == 0 || t.Args[0] != "commit" {
		return nil
	}
	var vs []Viol
	want, ok := stagedDiff(t.Pre)
	if !ok || len(want) == 0 || !identityAccepted(t.Pre) {
		return nil
	}
	if t.Res.Class != "ok" {
		return []Viol{{Clause: "commit-ok", Detail: fmt.Sprintf("commit failed at UTC offset %s: %s", zoneString(t.TZ), clip(t.Res.Stderr, 120)), Sig: "C12/commit-ok/commit"}}
	}
	id := t.Post.headCommit()
	x, okx := t.Post.Objects[id]
	if !okx {
		return nil
	}
	ci := parseCommit(x.Data)
	name, email, _ := t.Pre.identity()
	re := regexp.MustCompile(`^` + regexp.QuoteMeta(name+" <"+email+"> ") + `([1-9][0-9]*) ([+-][0-9]{4})$`)
	for _, line := range []string{ci.Author, ci.Committer} {
		m := re.FindStringSubmatch(line)
		if m == nil {
			vs = append(vs, Viol{Clause: "line-form", Detail: fmt.Sprintf("signature line %q is not 'Name <email> <secs> +-HHMM'", line)})
			continue
		}
		if m[2] != zoneString(t.TZ) {
			vs = append(vs, Viol{Clause: "line-form", Detail: fmt.Sprintf("zone %s recorded, the process ran at %s", m[2], zoneString(t.TZ))})
		}
		var secs int64
		fmt.Sscanf(m[1], "%d", &secs)
		if d := time.Now().Unix() - secs; d < -5 || d > 120 {
			vs = append(vs, Viol{Clause: "line-form", Detail: fmt.Sprintf("recorded instant %d is %d s away from now", secs, d)})
		}
	}
	if m, ok := msgFlag(t.Args); ok && ci.Message != m {
		vs = append(vs, Viol{Clause: "readback", Detail: fmt.Sprintf("stored message %q, given %q", clip(ci.Message, 80), clip(m, 80))})
	}
	return vs
}
