package main

// History generator and executor for the CLI-level checks. Generation is adaptive (the next step is
// drawn from the observed state so that most commands are valid) but every choice comes from the
// case's PRNG, and the executed script is recorded line by line, so a case replays exactly.

import (
	"bytes"
	"fmt"
	"os"
	"path/filepath"
	"sort"
	"strings"
	"sync"
	"time"
)

type Trans struct {
	Pre, Post *Obs
	Args      []string
	TZ        int
	Res       RunRes
	StepNo    int
	G         *Ghost
}

// Ghost: history information the specifications need
type Ghost struct {
	Commits    []string          // ids of commits created by `commit`, oldest first
	SnapAt     map[string][]ent  // commit id -> index entries when it was made
	ReflogPrev []reflogLine      // listing of `reflog` taken before the current step (when sampled)
	Objects    map[string]string // id -> sha of data seen (monotonicity)
}

type Viol struct {
	Clause string
	Detail string
	Sig    string // optional signature override
}

type HistOracle func(t *Trans) []Viol

type Weights map[string]int

type HistCfg struct {
	Prop      string
	Cases     int
	MinSteps  int
	MaxSteps  int
	W         Weights
	Oracles   []HistOracle
	Names     func(r *rng) []string // component pool
	Ignore    bool                  // generate .goitignore files
	TZs       []int
	Messages  func(r *rng) string
	Setup     func(r *rng, h *Hist) // forced prefix
	NoIdent   int                   // percent of cases that start without identity
	AfterStep func(h *Hist, t *Trans) []Viol
	// follow-up probes
	PreReset          bool // sample `reflog` before every reset
	Idempotent        bool // repeat a successful add and demand that nothing changes
	ReadBackCommit    bool // after a successful commit: `log -n 2` and `cat-file -p <commit>`
	NoDerive          bool // no command-model correspondence lines (the repository is being damaged on purpose)
	JunkSweep         bool // every 8th history ends with the whole table of malformed invocations
	LongChain         bool // every 10th history ends with a chain of 33..45 more commits and `log -n` at, just below and above its length
	StatusAfterCommit bool // `status` right after a successful commit must list nothing staged
	CommitFirst       bool // start with one commit
	FreshPct          int  // percent of cases that start without any commit (default 15 via histCheck)
	ReflogAfter       bool // run `reflog` after every invocation and compare with the listing before
	CatTrees          bool // `cat-file -p` every tree of a new commit
	AbsRefine         bool // compare abs(state) around every command with the abstract state machine
	WorldAlways       bool // replay on the whole-repository model even when the command models are off (damaged repositories)

}

type Hist struct {
	ctx     *Ctx
	cfg     *HistCfg
	r       *rng
	dir     string
	home    string
	lines   []string
	outs    []string
	obs     *Obs
	g       *Ghost
	viols   []Finding
	names   []string
	c       Case
	stats   map[string]int
	inProbe bool
	past    map[string][][]byte // earlier contents of each path (to return to an earlier state)
	derived []Derived
	world   []worldStep
}

var defaultComponents = []string{"a", "b", "d", "ad", "d-old", "lib", "lib.go", "lib-old", "lib0", "test", "test.c", "test-data",
	"my file", "x+y", "p(q)", "a.b", "ü", ".hidden", "a.goit", "d.x", "d0", "d e", "sub", "z"}

func (h *Hist) comp() string { return h.names[h.r.intn(len(h.names))] }

func (h *Hist) randPath() string {
	depth := 1
	switch x := h.r.intn(10); {
	case x < 4:
		depth = 1
	case x < 8:
		depth = 2
	case x < 9:
		depth = 3
	default:
		depth = 4
	}
	var parts []string
	// half of the time extend a directory that already exists, so that siblings accumulate
	if h.obs != nil && len(h.obs.Dirs) > 0 && h.r.chance(1, 2) {
		d := h.obs.Dirs[h.r.intn(len(h.obs.Dirs))]
		return d + "/" + h.comp()
	}
	for i := 0; i < depth; i++ {
		parts = append(parts, h.comp())
	}
	return strings.Join(parts, "/")
}

func sortedKeys(m map[string][]byte) []string {
	var ks []string
	for k := range m {
		ks = append(ks, k)
	}
	sort.Strings(ks)
	return ks
}

func (h *Hist) pickFile() (string, bool) {
	var ks []string
	for _, k := range sortedKeys(h.obs.Files) {
		if k != ".goitignore" { // only the `ignore` step writes it (lines in the supported domain)
			ks = append(ks, k)
		}
	}
	if len(ks) == 0 {
		return "", false
	}
	return ks[h.r.intn(len(ks))], true
}

func (h *Hist) pickTracked() (string, bool) {
	if len(h.obs.Index) == 0 {
		return "", false
	}
	return string(h.obs.Index[h.r.intn(len(h.obs.Index))].path), true
}

func (h *Hist) pickDir() (string, bool) {
	set := map[string]bool{}
	for _, d := range h.obs.Dirs {
		set[d] = true
	}
	for _, e := range h.obs.Index {
		p := string(e.path)
		for i := strings.LastIndex(p, "/"); i > 0; i = strings.LastIndex(p[:i], "/") {
			set[p[:i]] = true
		}
	}
	var ds []string
	for d := range set {
		ds = append(ds, d)
	}
	sort.Strings(ds)
	if len(ds) == 0 {
		return "", false
	}
	return ds[h.r.intn(len(ds))], true
}

func (h *Hist) pickBranch() (string, bool) {
	ks := sortedKeys(h.obs.Branches)
	if len(ks) == 0 {
		return "", false
	}
	return ks[h.r.intn(len(ks))], true
}

var branchNames = []string{"main", "dev", "de", "dev2", "feature", "a", "ab", "abc", "x-1", "v1.0", "b_2", "head", "m", "z", ".wip", ".x", "a.", "..."}

// newBranchName: a name from the pool, or (one time in four) a name derived from an existing branch or a pool
// name: the same letters in another case, or the name extended by the kind of suffix programs use for their
// own temporary files (a branch is a file in refs/heads, so `x.lock`, `x~`, `x.tmp` are legal branch names)
func (h *Hist) newBranchName() string {
	r := h.r
	n := r.pick(branchNames)
	if r.chance(1, 14) {
		// not a branch name, but as a file name beneath refs/heads it resolves to something that exists
		b := "main"
		if x, ok := h.pickBranch(); ok {
			b = x
		}
		return r.pick([]string{".", "..", "./" + b, b + "/", b + "/.", "../heads/" + b})
	}
	if !r.chance(1, 4) {
		return n
	}
	if b, ok := h.pickBranch(); ok && r.chance(2, 3) {
		n = b
	}
	sufs := []string{".lock", ".tmp", "~", ".orig", ".bak", "-tmp", ".new", ".old", "_", ".lock.lock"}
	switch r.intn(6) {
	case 0:
		return strings.ToUpper(n)
	case 1:
		return strings.ToLower(n)
	case 2:
		if len(n) > 0 {
			return strings.ToUpper(n[:1]) + n[1:]
		}
	case 3:
		for _, s := range sufs {
			if strings.HasSuffix(n, s) && len(n) > len(s) {
				return strings.TrimSuffix(n, s)
			}
		}
	}
	return n + r.pick(sufs)
}

func (h *Hist) content() []byte {
	switch h.r.intn(6) {
	case 0:
		return []byte{}
	case 1:
		return []byte("same\n")
	case 2:
		return h.r.bytesN(1 + h.r.intn(40))
	default:
		return []byte(fmt.Sprintf("content %d\n", h.r.intn(50)))
	}
}

// ---- executing steps ----

func (h *Hist) abs(p string) string { return filepath.Join(h.dir, filepath.FromSlash(p)) }

// W: a work-tree edit performed by the harness (not by goit)
func (h *Hist) W(op, path string, data []byte) {
	line := "W " + op + " " + hx([]byte(path)) + " " + hx(data)
	p := h.abs(path)
	switch op {
	case "write":
		// refuse to write through an existing file used as directory, or over a directory
		if st, err := os.Stat(p); err == nil && st.IsDir() {
			return
		}
		if err := os.MkdirAll(filepath.Dir(p), 0o777); err != nil {
			return
		}
		if err := os.WriteFile(p, data, 0o666); err != nil {
			return
		}
		if h.past == nil {
			h.past = map[string][][]byte{}
		}
		if n := len(h.past[path]); n == 0 || string(h.past[path][n-1]) != string(data) {
			h.past[path] = append(h.past[path], data)
		}
	case "damage":
		// overwrite one of Goit's own files with the given (damaged) bytes; only files that exist
		if st, err := os.Stat(p); err != nil || st.IsDir() {
			return
		}
		os.Chmod(p, 0o644)
		if err := os.WriteFile(p, data, 0o644); err != nil {
			return
		}
	case "rm":
		if st, err := os.Stat(p); err != nil || st.IsDir() {
			return
		}
		os.Remove(p)
	case "rmall":
		if path == "" || path == "." || strings.HasPrefix(path, ".goit") {
			return
		}
		os.RemoveAll(p)
	case "mkdir":
		if err := os.MkdirAll(p, 0o777); err != nil {
			return
		}
	case "touch":
		now := time.Now().Add(time.Duration(h.r.intn(1000)) * time.Second)
		if os.Chtimes(p, now, now) != nil {
			return
		}
	}
	h.lines = append(h.lines, line)
	h.outs = append(h.outs, "ok")
	h.obs = observe(h.dir, h.home)
	h.stats["W."+op]++
}

// outsideSpellings: `add` arguments written as `$ROOT/p` (the absolute path of the working directory; the
// placeholder keeps scripts replayable anywhere) or `../w/p` (through the parent directory; the working
// directory of every history is called `w`) name the same files as `p`. The command is run with the
// spelling as generated; the specifications and the models are given the equivalent plain spelling, i.e.
// what a correct `add` does with it.
func (h *Hist) outsideSpellings(args []string) (real, norm []string) {
	if len(args) == 0 || args[0] != "add" {
		return args, args
	}
	real, norm = append([]string{}, args...), append([]string{}, args...)
	for i, a := range args[1:] {
		for _, pre := range []string{"$ROOT", "../w"} {
			if a == pre || strings.HasPrefix(a, pre+"/") {
				rest := strings.TrimPrefix(strings.TrimPrefix(a, pre), "/")
				if rest == "" {
					rest = "."
				}
				norm[i+1] = rest
				if pre == "$ROOT" {
					real[i+1] = h.dir + strings.TrimPrefix(a, pre)
				}
			}
		}
	}
	return real, norm
}

// respell: now and then an argument is given under a non-normalised spelling (`./p`, `p/`, `.//p`, `a/./b`)
func (h *Hist) respell(args []string) {
	for i, a := range args {
		if a == "" || !h.r.chance(1, 6) {
			continue
		}
		args[i] = h.r.pick([]string{"./" + a, a + "/", ".//" + a, "./" + a + "/", strings.Replace(a, "/", "//", 1), strings.Replace(a, "/", "/./", 1)})
	}
}

// IsTrackedDir: some staged path lies beneath d
func IsTrackedDir(o *Obs, d string) bool {
	for _, e := range o.Index {
		if strings.HasPrefix(string(e.path), d+"/") {
			return true
		}
	}
	return false
}

func argvLine(tz int, args []string) string {
	var xs []string
	for _, a := range args {
		xs = append(xs, hx([]byte(a)))
	}
	return fmt.Sprintf("X %d %s", tz, strings.Join(xs, ","))
}

// X: one goit invocation
func (h *Hist) X(tz int, args ...string) *Trans {
	pre := h.obs
	script := args
	real, norm := h.outsideSpellings(args)
	res := runGoit(h.ctx.Goit, h.dir, h.home, tz, real)
	args = norm
	post := observe(h.dir, h.home)
	t := &Trans{Pre: pre, Post: post, Args: args, TZ: tz, Res: res, StepNo: len(h.lines), G: h.g}
	h.lines = append(h.lines, argvLine(tz, script))
	h.outs = append(h.outs, res.Class)
	h.stats["X."+args[0]+"."+res.Class]++
	if res.Class == "error" && os.Getenv("VERIF_DEBUG") != "" {
		h.stats["E."+args[0]+": "+clip(strings.TrimPrefix(firstLine(res.Stderr), "Error: "), 60)]++
	}
	var vs []Viol
	for _, o := range h.cfg.Oracles {
		vs = append(vs, o(t)...)
	}
	vs = append(vs, orReaders(t)...)
	if h.cfg.AfterStep != nil {
		vs = append(vs, h.cfg.AfterStep(h, t)...)
	}
	for _, v := range vs {
		sig := v.Sig
		if sig == "" {
			sig = h.cfg.Prop + "/" + v.Clause + "/" + args[0]
		}
		h.viols = append(h.viols, Finding{Kind: "spec-violation", Clause: v.Clause, Step: t.StepNo, Impl: res.Class,
			Detail: v.Detail + " | cmd: goit " + strings.Join(args, " ") + " | stderr: " + clip(strings.TrimSpace(res.Stderr), 200), Sig: sig})
	}
	if h.cfg.AbsRefine && !h.cfg.NoDerive {
		if d := deriveAbsLine(t); d != nil {
			d.Step = t.StepNo
			h.derived = append(h.derived, *d)
		}
	}
	if !h.cfg.NoDerive || h.cfg.WorldAlways {
		h.world = append(h.world, worldStep{pre: pre, post: post, args: args, tz: tz, res: res, stepNo: t.StepNo})
	}
	if !h.cfg.NoDerive {
		if d := deriveCmdLine(t); d != nil {
			d.Step = t.StepNo
			h.derived = append(h.derived, *d)
		}
	}
	// ghost bookkeeping
	if args[0] == "commit" && res.Class == "ok" {
		if id := post.headCommit(); id != "" && id != pre.headCommit() {
			h.g.Commits = append(h.g.Commits, id)
			h.g.SnapAt[id] = pre.Index
		}
	}
	h.obs = post
	if !h.inProbe {
		h.inProbe = true
		h.probes(t)
		h.inProbe = false
	}
	return t
}

func (h *Hist) addViol(t *Trans, clause, detail string) {
	h.viols = append(h.viols, Finding{Kind: "spec-violation", Clause: clause, Step: t.StepNo, Impl: t.Res.Class,
		Detail: detail + " | cmd: goit " + strings.Join(t.Args, " "), Sig: h.cfg.Prop + "/" + clause + "/" + t.Args[0]})
}

// follow-up probes after an invocation (each is itself a recorded invocation)
func (h *Hist) probes(t *Trans) {
	cfg := h.cfg
	ok := t.Res.Class == "ok"
	if cfg.Idempotent && ok && t.Args[0] == "add" && h.r.chance(1, 3) {
		before := h.obs
		t2 := h.X(t.TZ, t.Args...)
		if t2.Res.Class == "ok" {
			if d, same := stateEqual(before, t2.Post); !same {
				h.addViol(t2, "add.idempotent", "repeating the same add changed the repository: "+d)
			}
		}
	}
	if cfg.StatusAfterCommit && ok && t.Args[0] == "commit" {
		t2 := h.X(0, "status")
		if t2.Res.Class == "ok" {
			if st := parseStatus(t2.Res.Stdout); len(st.Staged) > 0 {
				h.addViol(t2, "clean-after-commit", fmt.Sprintf("status right after a successful commit lists staged changes %v", st.Staged))
			}
		} else {
			h.addViol(t2, "clean-after-commit", "status failed right after a successful commit: "+clip(t2.Res.Stderr, 120))
		}
	}
	if cfg.ReadBackCommit && ok && t.Args[0] == "commit" {
		// read the new commit back the way a user does: `log` (under another time zone than it was made in,
		// half of the time) and `cat-file -p`
		if id := t.Post.headCommit(); id != "" {
			tz2 := t.TZ
			if h.r.chance(1, 2) {
				tz2 = h.r.pick3(0, 19800, -12600)
			}
			h.X(tz2, "log", "-n", "2")
			h.X(tz2, "cat-file", "-p", id)
		}
	}
	if cfg.CatTrees && ok && t.Args[0] == "commit" {
		if id := t.Post.headCommit(); id != "" {
			if x, okc := t.Post.Objects[id]; okc {
				ci := parseCommit(x.Data)
				var trees []string
				var walk func(id string, d int)
				walk = func(id string, d int) {
					if d > 8 {
						return
					}
					trees = append(trees, id)
					if tx, ok := t.Post.Objects[id]; ok && tx.Kind == "tree" {
						items, _ := parseTree(tx.Data)
						for _, it := range items {
							if it.Mode == "040000" {
								walk(hx(it.ID), d+1)
							}
						}
					}
				}
				walk(ci.Tree, 0)
				for _, tr := range trees {
					h.X(0, "cat-file", "-p", tr)
				}
			}
		}
	}
	if cfg.ReflogAfter {
		prev := h.g.ReflogPrev
		t2 := h.X(0, "reflog")
		if t2.Res.Class != "ok" {
			if t2.Pre.HasLogHead {
				h.addViol(t2, "readable", "reflog failed after `goit "+strings.Join(t.Args, " ")+"`: "+clip(firstLine(t2.Res.Stderr), 160))
			}
			h.g.ReflogPrev = nil
			return
		}
		cur, parsed := parseReflogOut(t2.Res.Stdout)
		if !parsed {
			h.addViol(t2, "readable", "reflog output has a line that is not '<id> HEAD@{n}: kind: message'")
			h.g.ReflogPrev = nil
			return
		}
		if cur == nil {
			cur = []reflogLine{}
		}
		h.g.ReflogPrev = cur
		for i, l := range cur {
			if l.Pos != i {
				h.addViol(t2, "append", fmt.Sprintf("listing position %d is labelled HEAD@{%d}", i, l.Pos))
			}
		}
		if prev == nil {
			return
		}
		k := len(cur) - len(prev)
		wantK, kind := 0, ""
		if ok {
			switch {
			case t.Args[0] == "commit":
				wantK, kind = 1, "commit"
			case t.Args[0] == "switch":
				wantK, kind = 1, "checkout"
			case t.Args[0] == "reset":
				wantK, kind = 1, "reset"
			case t.Args[0] == "branch" && len(t.Args) == 3 && t.Args[1] == "-r":
				wantK = 2
			}
		}
		if t.Res.Class == "error" && (t.Args[0] == "reset" || t.Args[0] == "commit" || t.Args[0] == "switch") && (k == 0 || k == 1) {
			// a command that failed after it had moved HEAD may or may not have logged the move: only the
			// earlier entries are constrained
			wantK = k
			kind = ""
		}
		if k != wantK {
			h.addViol(t2, "append", fmt.Sprintf("listing grew by %d entries after `goit %s` (%s), expected %d", k, strings.Join(t.Args, " "), t.Res.Class, wantK))
			return
		}
		for i := range prev {
			a, b := prev[i], cur[i+k]
			if a.Hash != b.Hash || a.Kind != b.Kind || a.Msg != b.Msg {
				h.addViol(t2, "append", fmt.Sprintf("earlier entry %d changed: %v -> %v", i, a, b))
				break
			}
		}
		if kind != "" && len(cur) > 0 {
			tip := t.Post.headCommit()
			if len(tip) >= 7 && (cur[0].Hash != tip[:7] || cur[0].Kind != kind) {
				h.addViol(t2, "head0", fmt.Sprintf("HEAD@{0} shows %s %s, HEAD resolves to %s after a %s", cur[0].Hash, cur[0].Kind, tip[:7], kind))
			}
		}
	}
}

// ---- generation ----

func (h *Hist) step() {
	r := h.r
	total := 0
	var keys []string
	for k := range h.cfg.W {
		keys = append(keys, k)
	}
	sort.Strings(keys)
	for _, k := range keys {
		total += h.cfg.W[k]
	}
	x := r.intn(total)
	op := ""
	for _, k := range keys {
		if x < h.cfg.W[k] {
			op = k
			break
		}
		x -= h.cfg.W[k]
	}
	tz := 0
	if len(h.cfg.TZs) > 0 {
		tz = h.cfg.TZs[r.intn(len(h.cfg.TZs))]
	}
	msg := func() string {
		if h.cfg.Messages != nil {
			return h.cfg.Messages(r)
		}
		// mostly plain; now and then text that is special to a formatter, a shell or a terminal
		if r.chance(1, 4) {
			return r.pick([]string{"100% done", "rate: 50% less io, %d files", "%s %v %q %%", "50%!", "tab\tin message", "ünï %x", "back\\slash", "$HOME `x` 'q'"}) + fmt.Sprint(r.intn(10))
		}
		return fmt.Sprintf("msg %d", r.intn(1000))
	}
	switch op {
	case "write":
		p := h.randPath()
		if r.chance(1, 3) {
			if f, ok := h.pickFile(); ok {
				p = f
			}
		}
		h.W("write", p, h.content())
	case "write-old":
		// return a file to a content it had before (histories that revisit an earlier snapshot)
		var ks []string
		for k, v := range h.past {
			if len(v) > 1 {
				ks = append(ks, k)
			}
		}
		sort.Strings(ks)
		if len(ks) > 0 {
			k := ks[r.intn(len(ks))]
			h.W("write", k, h.past[k][r.intn(len(h.past[k])-1)])
		}
	case "rename-reset":
		// a pure rename (same bytes under another path) committed, then a reset across that commit: the two
		// snapshots have the same number of entries and the same blob ids, only the paths differ
		if f, ok := h.pickTracked(); ok {
			if data, on := h.obs.Files[f]; on {
				g := h.randPath()
				if _, exists := h.obs.Files[g]; !exists && g != f {
					h.X(tz, "add", ".")
					h.X(tz, "commit", "-m", "before rename")
					h.X(tz, "rm", f)
					h.W("write", g, data)
					h.X(tz, "add", g)
					h.X(tz, "commit", "-m", "rename")
					if h.cfg.PreReset {
						sampleReflog(h)
					}
					h.X(tz, "reset", r.pick([]string{"--mixed", "--hard", "--mixed", "--soft"}), "HEAD@{1}")
					h.X(tz, "ls-files", "-s")
					h.X(tz, "status")
				}
			}
		}
	case "rewrite-same":
		if f, ok := h.pickFile(); ok {
			h.W("write", f, h.obs.Files[f])
		}
	case "touch":
		if f, ok := h.pickFile(); ok {
			h.W("touch", f, nil)
		}
	case "rmfile":
		if f, ok := h.pickFile(); ok {
			h.W("rm", f, nil)
		}
	case "case-twin-commit":
		// branches whose names differ only in letter case, reached by create / rename / switch -c in a random
		// order, then a commit on one of them: the commit must move exactly the branch HEAD names
		if cur, ok := h.obs.headBranch(); ok && len(h.obs.Branches) > 0 {
			variants := func(n string) []string {
				out := []string{strings.ToUpper(n), strings.ToLower(n)}
				if len(n) > 0 {
					out = append(out, strings.ToUpper(n[:1])+strings.ToLower(n[1:]), strings.ToLower(n[:1])+strings.ToUpper(n[1:]))
				}
				return out
			}
			for i := 0; i < 2+r.intn(3); i++ {
				base := cur
				if b, ok := h.pickBranch(); ok && r.chance(1, 2) {
					base = b
				}
				v := r.pick(variants(base))
				switch r.intn(4) {
				case 0:
					h.X(tz, "branch", v)
				case 1:
					h.X(tz, "branch", "-r", v)
				case 2:
					h.X(tz, "switch", "-c", v)
				default:
					h.X(tz, "switch", v)
				}
			}
			h.W("write", h.randPath(), h.content())
			h.X(tz, "add", ".")
			h.X(tz, "commit", "-m", msg())
			h.X(tz, "branch", "--list")
		}
	case "dir-gone-probe":
		// a tracked directory D vanishes from the disk as a whole while tracked siblings whose names extend D's
		// name (with bytes sorting below and above '/') stay, one of them rewritten identically, one edited:
		// `status` must call exactly D's files deleted
		if d, ok := h.pickDir(); ok && IsTrackedDir(h.obs, d) {
			for _, suf := range []string{r.pick([]string{"2", "_old", "s", "z"}), r.pick([]string{"-doc", ".txt", " x"})} {
				sib := d + suf
				if _, exists := h.obs.Files[sib]; !exists && !isDirIn(h.obs, sib) {
					if r.chance(1, 2) {
						h.W("write", sib, h.content())
					} else {
						h.W("write", sib+"/"+h.comp(), h.content())
					}
				}
			}
			h.X(tz, "add", ".")
			if r.chance(1, 2) {
				h.X(tz, "commit", "-m", "before the directory goes")
			}
			h.W("rmall", d, nil)
			if f, ok := h.pickFile(); ok && r.chance(1, 2) {
				h.W("write", f, h.obs.Files[f])
			}
			h.X(tz, "status")
		}
	case "hard-rmdir":
		// a tracked directory D with a file directly in it, a tracked sibling whose name extends D's name with a
		// byte that sorts below '/', everything committed; then D vanishes from the working tree and
		// `reset --hard` has to put it back
		if d, ok := h.pickDir(); ok && IsTrackedDir(h.obs, d) {
			sib := d + r.pick([]string{"-old", ".x", " e", "+1", "!"})
			if _, exists := h.obs.Files[sib]; !exists && !isDirIn(h.obs, sib) {
				// the sibling is a file, or a directory holding one
				if r.chance(1, 2) {
					h.W("write", sib, h.content())
				} else {
					h.W("write", sib+"/"+h.comp(), h.content())
				}
			}
			h.W("write", d+"/"+r.pick([]string{"0first", "a", "A"}), h.content())
			h.X(tz, "add", ".")
			h.X(tz, "commit", "-m", "before the directory goes")
			h.W("rmall", d, nil)
			if h.cfg.PreReset {
				h.inProbe = true
				sampleReflog(h)
				h.inProbe = false
			}
			h.X(tz, "reset", "--hard", "HEAD@{0}")
			h.X(tz, "status")
		}
	case "rmdir":
		if len(h.obs.Dirs) > 0 {
			h.W("rmall", h.obs.Dirs[r.intn(len(h.obs.Dirs))], nil)
		}
	case "mkdir":
		h.W("mkdir", h.randPath(), nil)
	case "ignore":
		var ls []string
		for i := 0; i < 1+r.intn(2); i++ {
			if r.chance(1, 2) {
				ls = append(ls, h.comp()+"/")
			} else {
				ls = append(ls, "*."+r.pick([]string{"log", "tmp", "o", "c"}))
			}
		}
		// line ends as an editor on any platform leaves them: LF, CRLF, no final line break, a blank line in between
		eol := r.pick([]string{"\n", "\n", "\n", "\r\n", "\r\n"})
		body := strings.Join(ls, eol)
		switch r.intn(4) {
		case 0:
		case 1:
			body += eol + eol
		default:
			body += eol
		}
		h.W("write", ".goitignore", []byte(body))
	case "ignore-probe":
		// an ignored *file* with siblings that sort before and after it, in the root or in a directory,
		// some of them tracked, followed by `status` (and `add <dir>`): what an ignored entry hides must
		// not depend on what sorts after it
		ext := r.pick([]string{"log", "tmp", "o", "c"})
		dir := ""
		if r.chance(2, 3) {
			dir = h.comp() + "/"
		}
		lines := []string{"*." + ext}
		if r.chance(1, 3) {
			lines = append(lines, h.comp()+"/")
		}
		h.W("write", ".goitignore", []byte(strings.Join(lines, "\n")+"\n"))
		mid := r.pick([]string{"k", "m", "d", "b"})
		h.W("write", dir+mid+"."+ext, h.content())
		for _, sib := range []string{"a", mid + "~z", "zz", "zsub/q", mid} {
			if r.chance(2, 3) {
				h.W("write", dir+sib, h.content())
			}
		}
		h.X(tz, "status")
		if r.chance(1, 2) {
			if dir == "" {
				h.X(tz, "add", ".")
			} else {
				h.X(tz, "add", strings.TrimSuffix(dir, "/"))
			}
			h.X(tz, "status")
		}
	case "nested-meta-probe":
		// a directory that is *named* like Goit's own (`.goit`, `.goit2`, `x.goit`, `.goitx`) below the top level is an ordinary
		// directory: nothing beneath it is hidden from status or skipped by add, whatever the spelling of the argument
		outer := h.comp()
		if outer == ".goit" {
			break
		}
		inner := r.pick([]string{".goit", ".goit", ".goit2", "x.goit", ".goitx", ".goitignore.d"})
		f1, f2 := outer+"/"+inner+"/"+h.comp(), outer+"/"+inner+"/sub/"+h.comp()
		h.W("write", f1, h.content())
		if r.chance(1, 2) {
			h.W("write", f2, h.content())
		}
		h.X(tz, "status")
		h.X(tz, "add", r.pick([]string{".", outer, outer + "/" + inner, f1, "./" + outer + "/" + inner + "/"}))
		h.X(tz, "ls-files")
		h.X(tz, "status")
		if r.chance(1, 2) {
			h.W("write", f1, h.content())
			h.X(tz, "add", r.pick([]string{".", outer, f1}))
			h.X(tz, "status")
		}
	case "nested-ignore-probe":
		// an ignored directory at depth 2 or more, named as the argument of `add` in several spellings, and an
		// ignore entry of two components below an added ancestor: what is ignored is decided from the path
		// relative to the repository, not to the argument
		outer, name := h.comp(), h.comp()
		if outer == name {
			break
		}
		two := r.chance(1, 3)
		if two {
			h.W("write", ".goitignore", []byte(outer+"/"+name+"/\n"))
		} else {
			h.W("write", ".goitignore", []byte(name+"/\n"))
		}
		h.W("write", outer+"/"+name+"/gen", h.content())
		h.W("write", outer+"/"+name+"/deep/g2", h.content())
		h.W("write", outer+"/kept", h.content())
		if two {
			h.X(tz, "add", outer)
		} else {
			h.X(tz, "add", r.pick([]string{outer + "/" + name, outer + "/" + name + "/", outer + "/" + name + "/deep", "./" + outer + "/" + name}))
		}
		h.X(tz, "status")
		h.X(tz, "add", r.pick([]string{outer, ".", outer + "/"}))
		h.X(tz, "status")
	case "add":
		var args []string
		n := 1 + r.intn(3)
		for i := 0; i < n; i++ {
			switch y := r.intn(13); {
			case y == 12:
				// a directory (or `.`) followed by a tracked path beneath it that is gone from the disk: the walk of
				// the directory stages what exists, the second argument must still unstage what does not
				var gone []string
				for _, e := range h.obs.Index {
					if _, on := h.obs.Files[string(e.path)]; !on {
						gone = append(gone, string(e.path))
					}
				}
				if len(gone) > 0 {
					g := gone[r.intn(len(gone))]
					d := "."
					if i := strings.LastIndex(g, "/"); i > 0 && r.chance(2, 3) {
						d = g[:i]
						if j := strings.Index(g, "/"); j > 0 && r.chance(1, 2) {
							d = g[:j]
						}
					}
					args = append(args, d, g)
				} else if t, ok := h.pickTracked(); ok {
					args = append(args, t)
				}
			case y == 10:
				// Goit's own files, in every spelling (`add` must skip them however they are named)
				meta := r.pick([]string{".goit", ".goit/HEAD", ".goit/index", ".goit/config", ".goit/refs/heads/main", ".goit/objects", ".goit/logs/HEAD"})
				args = append(args, r.pick([]string{meta, "./" + meta, meta + "/", "./" + meta + "/", h.comp() + "/../" + meta, ".//" + meta, "$ROOT/" + meta, "../w/" + meta}))
			case y == 11:
				// an existing file or directory under a non-normalised spelling
				if f, ok := h.pickFile(); ok {
					args = append(args, r.pick([]string{"./" + f, ".//" + f, "./" + f + "/", strings.Replace(f, "/", "//", 1), strings.Replace(f, "/", "/./", 1), "$ROOT/" + f, "../w/" + f}))
				}
			case y < 4:
				if f, ok := h.pickFile(); ok {
					args = append(args, f)
				}
			case y < 6:
				if d, ok := h.pickDir(); ok {
					args = append(args, r.pick([]string{d, d, d + "/", "./" + d}))
				}
			case y < 7:
				args = append(args, r.pick([]string{".", ".", ".", "./", "./.", "$ROOT", "$ROOT/", "../w", "../w/."}))
			case y < 9:
				if t, ok := h.pickTracked(); ok {
					args = append(args, t)
				}
			default:
				args = append(args, h.randPath())
			}
		}
		if len(args) > 0 && r.chance(1, 8) {
			args = append(args, args[0])
		}
		if len(args) == 0 {
			args = []string{"."}
		}
		h.X(tz, append([]string{"add"}, args...)...)
	case "add-all":
		h.X(tz, "add", ".")
	case "rm":
		var args []string
		n := 1 + r.intn(2)
		for i := 0; i < n; i++ {
			switch y := r.intn(10); {
			case y < 6:
				if t, ok := h.pickTracked(); ok {
					args = append(args, t)
				}
			case y < 8:
				if d, ok := h.pickDir(); ok {
					args = append(args, d)
				}
			case y < 9:
				if f, ok := h.pickFile(); ok {
					args = append(args, f)
				}
			default:
				args = append(args, h.randPath())
			}
		}
		h.respell(args)
		if len(args) > 0 {
			h.X(tz, append([]string{"rm"}, args...)...)
		}
	case "commit":
		// most commits should have something to commit: stage a change first when nothing is staged
		if d, ok := stagedDiff(h.obs); ok && len(d) == 0 && r.chance(4, 5) {
			switch r.intn(4) {
			case 0:
				if f, ok := h.pickFile(); ok {
					h.W("write", f, h.content())
					h.X(tz, "add", f)
					break
				}
				fallthrough
			default:
				h.W("write", h.randPath(), h.content())
				h.X(tz, "add", ".")
			}
		}
		h.X(tz, "commit", "-m", msg())
	case "commit-inject":
		// a message whose second line looks like a reflog record naming a blob / tree / unknown id:
		// harmless as long as a reflog record is one line and reset validates what it is given
		var ids []string
		for id, x := range h.obs.Objects {
			if x.Kind != "commit" {
				ids = append(ids, id)
			}
		}
		sort.Strings(ids)
		id := strings.Repeat("ab", 20)
		if len(ids) > 0 && r.chance(3, 4) {
			id = ids[r.intn(len(ids))]
		}
		if d, ok := stagedDiff(h.obs); ok && len(d) == 0 {
			h.W("write", h.randPath(), h.content())
			h.X(tz, "add", ".")
		}
		h.X(tz, "commit", "-m", "subject\n"+strings.Repeat("0", 40)+" "+id+" N <n@example.com> 1 +0000\tcommit: injected")
		if h.cfg.PreReset {
			h.inProbe = true
			sampleReflog(h)
			h.inProbe = false
		}
		h.X(tz, "reset", r.pick([]string{"--soft", "--mixed"}), fmt.Sprintf("HEAD@{%d}", r.intn(3)))
	case "branch":
		n := h.newBranchName()
		h.X(tz, "branch", n)
	case "branch-rename":
		h.X(tz, "branch", "-r", h.newBranchName())
	case "branch-delete":
		n := h.newBranchName()
		if b, ok := h.pickBranch(); ok && r.chance(2, 3) {
			n = b
		}
		h.X(tz, "branch", "-d", n)
	case "branch-list":
		h.X(tz, "branch", "--list")
	case "switch":
		n := h.newBranchName()
		if b, ok := h.pickBranch(); ok && r.chance(3, 4) {
			n = b
		}
		h.X(tz, "switch", n)
	case "lock-twin-probe":
		// HEAD sits on a branch whose name is another name plus the kind of suffix programs give their temporary files
		// (`x.lock`, `x.tmp`, `x~`, `x.new`); then the shorter name is written in every way a branch file is written:
		// HEAD's branch must survive with its bytes
		base := r.pick([]string{"topic", "t", "main", "dev"})
		if b, ok := h.pickBranch(); ok && r.chance(1, 2) {
			base = b
		}
		suf := r.pick([]string{".lock", ".lock", ".tmp", "~", ".new", ".orig"})
		h.X(tz, "switch", "-c", base+suf)
		switch r.intn(4) {
		case 0, 1:
			h.X(tz, "branch", base)
		case 2:
			if len(h.g.Commits) > 0 {
				h.X(tz, "update-ref", "refs/heads/"+base, h.g.Commits[r.intn(len(h.g.Commits))])
				h.X(tz, "switch", base+suf)
			}
		default:
			h.X(tz, "switch", base)
			h.W("write", h.randPath(), h.content())
			h.X(tz, "add", ".")
			h.X(tz, "commit", "-m", "on the shorter name")
			h.X(tz, "switch", base+suf)
		}
		h.X(tz, "branch", "--list")
		h.X(tz, "rev-parse", "HEAD")
		h.X(tz, "log", "-n", "1")
	case "switch-c":
		h.X(tz, "switch", "-c", h.newBranchName())
	case "reset":
		if h.cfg.PreReset {
			h.inProbe = true
			sampleReflog(h)
			h.inProbe = false
		}
		mode := r.pick([]string{"--soft", "--mixed", "--hard"})
		n := len(parseLogLines(h.obs.LogHead))
		k := r.intn(n + 2)
		arg := fmt.Sprintf("HEAD@{%d}", k)
		if r.chance(1, 6) {
			// the number is decimal whatever its spelling: leading zeros (010 is ten, 08 is eight)
			arg = fmt.Sprintf("HEAD@{%s%d}", r.pick([]string{"0", "00", "000"}), k)
		}
		if r.chance(1, 10) {
			arg = r.pick([]string{"HEAD", "HEAD@{}", "HEAD@{x}", "xHEAD@{1}", "HEAD@{1}x", "HEAD@{-1}", "head@{0}", "HEAD@{1}HEAD@{0}", "HEAD@{99999999999999999999}", ""})
		}
		h.X(tz, "reset", mode, arg)
	case "restore":
		var args []string
		n := 1 + r.intn(2)
		for i := 0; i < n; i++ {
			switch y := r.intn(10); {
			case y < 5:
				if t, ok := h.pickTracked(); ok {
					args = append(args, t)
				}
			case y < 8:
				if d, ok := h.pickDir(); ok {
					args = append(args, d)
				}
			case y < 9:
				if f, ok := h.pickFile(); ok {
					args = append(args, f)
				}
			default:
				args = append(args, h.randPath())
			}
		}
		h.respell(args)
		if len(args) > 0 {
			if r.chance(1, 2) {
				h.X(tz, append([]string{"restore", "--staged"}, args...)...)
			} else {
				h.X(tz, append([]string{"restore"}, args...)...)
			}
		}
	case "update-ref":
		b := h.newBranchName()
		if x, ok := h.pickBranch(); ok && r.chance(3, 4) {
			b = x
		}
		var ids []string
		for id := range h.obs.Objects {
			ids = append(ids, id)
		}
		sort.Strings(ids)
		id := strings.Repeat("0", 40)
		if len(h.g.Commits) > 0 && r.chance(3, 5) {
			id = h.g.Commits[r.intn(len(h.g.Commits))]
		} else if len(ids) > 0 && r.chance(3, 4) {
			id = ids[r.intn(len(ids))]
		}
		if r.chance(1, 8) {
			// malformed ids: every short length, one too short, one too long, upper case, a non-hex digit
			id = r.pick([]string{"", id[:1], id[:2], id[:7], id[:39], id + "0", strings.ToUpper(id), "g" + id[1:], id[:20] + " " + id[21:]})
		}
		ref := "refs/heads/" + b
		if r.chance(1, 8) {
			ref = r.pick([]string{b, "heads/" + b, "refs/heads/" + b + "/", "refs/tags/" + b, "refs/heads/x/" + b, "/refs/heads/" + b, "refs/heads//" + b, "REFS/HEADS/" + b})
		}
		h.X(tz, "update-ref", ref, id)
	case "twin-dirs":
		// two (or three) directories with identical contents — identical tree objects — in one snapshot, at the same or at
		// different depths; committed, then read back every way a snapshot is read (reset, status, cat-file, switch)
		a, b := h.comp(), h.comp()
		if a != b {
			if r.chance(1, 2) {
				b = h.comp() + "/" + b
			}
			n1, n2 := h.comp(), h.comp()
			d1, d2 := h.content(), h.content()
			for _, d := range []string{a, b} {
				h.W("write", d+"/"+n1, d1)
				if n2 != n1 {
					h.W("write", d+"/sub/"+n2, d2)
				}
			}
			h.X(tz, "add", ".")
			h.X(tz, "commit", "-m", "twin directories")
			h.X(tz, "status")
			h.X(tz, "cat-file", "-p", "HEAD")
			h.W("write", a+"/"+n1, h.content())
			h.X(tz, "add", a)
			if h.cfg.PreReset {
				h.inProbe = true
				sampleReflog(h)
				h.inProbe = false
			}
			h.X(tz, "reset", r.pick([]string{"--mixed", "--hard"}), "HEAD@{0}")
			h.X(tz, "ls-files")
			h.X(tz, "status")
		}
	case "restore-family-probe":
		// a directory argument together with siblings whose names merely start with the directory's name (d-old, d.txt, d2/x):
		// every named path is restored, none is skipped because an earlier argument looks like its prefix
		d := h.comp()
		fam := []string{d + "/" + h.comp(), d + "-old", d + ".txt", d + "2/" + h.comp(), d + "_x"}
		var use []string
		for _, f := range fam {
			if r.chance(2, 3) {
				use = append(use, f)
			}
		}
		if len(use) >= 2 {
			for _, f := range use {
				h.W("write", f, h.content())
			}
			h.X(tz, append([]string{"add"}, use...)...)
			if r.chance(1, 2) {
				h.X(tz, "commit", "-m", "a family of names")
			}
			for _, f := range use {
				if r.chance(2, 3) {
					h.W("write", f, h.content())
				} else {
					h.W("rm", f, nil)
				}
			}
			args := []string{d}
			for _, f := range use[1:] {
				if i := strings.Index(f, "/"); i > 0 && r.chance(1, 2) {
					args = append(args, f[:i])
				} else {
					args = append(args, f)
				}
			}
			if r.chance(1, 3) {
				args[0], args[len(args)-1] = args[len(args)-1], args[0]
			}
			if r.chance(1, 4) {
				h.X(tz, append([]string{"add"}, args...)...)
				h.X(tz, append([]string{"restore", "--staged"}, args...)...)
			} else {
				h.X(tz, append([]string{"restore"}, args...)...)
			}
			h.X(tz, "status")
		}
	case "twins":
		// several tracked files with identical bytes in one directory (and below it), then all of them
		// modified or deleted and the directory restored / re-added / removed: nothing may be keyed by content
		d := h.comp()
		data := h.content()
		names := []string{d + "/" + h.comp(), d + "/" + h.comp() + "2", d + "/" + h.comp() + "/" + h.comp()}
		for _, n := range names {
			h.W("write", n, data)
		}
		h.X(tz, "add", d)
		if r.chance(1, 2) {
			h.X(tz, "commit", "-m", "twins")
		}
		for _, n := range names {
			if r.chance(1, 2) {
				h.W("write", n, h.content())
			} else {
				h.W("rm", n, nil)
			}
		}
		switch r.intn(4) {
		case 0, 1:
			h.X(tz, "restore", d)
		case 2:
			h.X(tz, "add", d)
		default:
			h.X(tz, "rm", d)
		}
		h.X(tz, "status")
	case "damage":
		// damage one file of the repository (truncation, one byte substituted or deleted, emptied, two object
		// files swapped), then look at the repository with every read-only command
		var files []string
		filepath.Walk(filepath.Join(h.dir, ".goit"), func(p string, info os.FileInfo, err error) error {
			if err == nil && !info.IsDir() {
				if rel, e := filepath.Rel(h.dir, p); e == nil && !strings.Contains(filepath.Base(rel), "tmp") {
					files = append(files, rel)
				}
			}
			return nil
		})
		sort.Strings(files)
		if len(files) == 0 {
			break
		}
		// prefer the small control files now and then: they are few among many objects
		f := files[r.intn(len(files))]
		if r.chance(1, 2) {
			var ctl []string
			for _, x := range files {
				if !strings.Contains(x, "/objects/") {
					ctl = append(ctl, x)
				}
			}
			if len(ctl) > 0 {
				f = ctl[r.intn(len(ctl))]
			}
		}
		old, err := os.ReadFile(filepath.Join(h.dir, f))
		if err != nil {
			break
		}
		nd := append([]byte{}, old...)
		switch k := r.intn(6); {
		case k == 0 || len(nd) == 0:
			nd = nil
		case k == 1:
			nd = nd[:r.intn(len(nd))]
		case k == 2:
			i := r.intn(len(nd))
			nd[i] = r.pickByte([]byte{0, 10, 32, 47, 255, nd[i] + 1, nd[i] - 1, '0', 'g'})
		case k == 3:
			i := r.intn(len(nd))
			nd = append(nd[:i], nd[i+1:]...)
		case k == 4 && strings.Contains(f, "/objects/"):
			// another object's bytes under this name
			var objs []string
			for _, x := range files {
				if strings.Contains(x, "/objects/") && x != f {
					objs = append(objs, x)
				}
			}
			if len(objs) > 0 {
				if b, err := os.ReadFile(filepath.Join(h.dir, objs[r.intn(len(objs))])); err == nil {
					nd = b
				}
			}
		default:
			nd = append(nd, r.bytesN(1+r.intn(8))...)
		}
		h.W("damage", f, nd)
		var ids []string
		for id := range h.obs.Objects {
			ids = append(ids, id)
		}
		sort.Strings(ids)
		for _, c := range [][]string{{"status"}, {"log"}, {"reflog"}, {"ls-files", "-s"}, {"branch", "--list"}, {"rev-parse", "HEAD"}, {"write-tree"}} {
			h.X(tz, c...)
		}
		for i := 0; i < 3 && len(ids) > 0; i++ {
			h.X(tz, "cat-file", r.pick([]string{"-p", "-t"}), ids[r.intn(len(ids))])
		}
		if strings.Contains(f, "/objects/") {
			id := strings.Replace(strings.TrimPrefix(f, ".goit/objects/"), "/", "", 1)
			h.X(tz, "cat-file", "-p", id)
			h.X(tz, "cat-file", "-t", id)
		}
		// and with a few modifying commands: they must fail cleanly or work, never crash
		if r.chance(1, 2) {
			h.X(tz, r.pick([]string{"add", "commit", "reset", "restore", "switch"}), r.pick([]string{".", "-m", "HEAD@{0}", "main"}))
		}
		// put the file back so that the history can go on
		h.W("damage", f, old)
	case "edit-same-size":
		// change one byte of a file without changing its length (nothing but the bytes tells it apart)
		if f, ok := h.pickFile(); ok {
			if data := h.obs.Files[f]; len(data) > 0 {
				nd := append([]byte{}, data...)
				i := r.intn(len(nd))
				nd[i] ^= byte(1 + r.intn(255))
				h.W("write", f, nd)
			}
		}
	case "revert-add-probe":
		// a file put back to its committed bytes after a different version was staged, with a command in between that
		// rewrites the branch file (or HEAD) but not the staging area: `add` must stage the current bytes, whatever was written when
		f := h.randPath()
		a, b := h.content(), append(h.content(), []byte("changed\n")...)
		h.W("write", f, a)
		h.X(tz, "add", f)
		h.X(tz, "commit", "-m", "probe base")
		if _, tracked := h.obs.Files[f]; tracked {
			if r.chance(1, 3) {
				h.X(tz, "rm", f)
			} else {
				h.W("write", f, b)
				h.X(tz, "add", f)
			}
			switch r.intn(4) {
			case 0:
				h.X(tz, "reset", "--soft", "HEAD@{0}")
			case 1:
				h.X(tz, "switch", "-c", r.pick([]string{"px", "py", "pz"}))
			case 2:
				if cur, ok := h.obs.headBranch(); ok && len(h.g.Commits) > 0 {
					h.X(tz, "update-ref", "refs/heads/"+cur, h.g.Commits[len(h.g.Commits)-1])
				}
			default:
				h.X(tz, "branch", "-r", r.pick([]string{"rx", "ry"}))
			}
			h.W("write", f, a)
			if r.chance(1, 3) {
				h.X(tz, "add", ".")
			} else {
				h.X(tz, "add", f)
			}
			h.X(tz, "ls-files", "-s")
			h.X(tz, "status")
		}
	case "update-ref-probe":
		// `update-ref` moves the current branch to another commit without writing a reflog record and without touching the staging
		// area: whatever reads "HEAD's commit" afterwards (restore --staged, status, log, commit) must read the branch file
		if cur, ok := h.obs.headBranch(); ok && len(h.g.Commits) >= 2 {
			h.X(tz, "update-ref", "refs/heads/"+cur, h.g.Commits[r.intn(len(h.g.Commits))])
			switch r.intn(4) {
			case 0:
				if t, ok := h.pickTracked(); ok {
					h.X(tz, "restore", "--staged", t)
				} else {
					h.X(tz, "restore", "--staged", ".")
				}
			case 1:
				h.X(tz, "status")
			case 2:
				h.X(tz, "log", "-n", "3")
			default:
				h.W("write", h.randPath(), h.content())
				h.X(tz, "add", ".")
				h.X(tz, "commit", "-m", "after update-ref")
			}
			h.X(tz, "ls-files", "-s")
			h.X(tz, "status")
		}
	case "switch-reset-probe":
		// a reset whose position falls on (or just after) a record written by `switch` between branches at different commits:
		// the commit `reflog` shows at HEAD@{n} is the one reset must install, whatever the record's other columns say
		cur, okc := h.obs.headBranch()
		nb := r.pick([]string{"side", "probe", "dev2", "zz"})
		if okc && cur != nb {
			h.X(tz, "switch", "-c", nb)
			h.W("write", h.randPath(), h.content())
			h.X(tz, "add", ".")
			h.X(tz, "commit", "-m", "on "+nb)
			h.X(tz, "switch", cur)
			if h.cfg.PreReset {
				h.inProbe = true
				sampleReflog(h)
				h.inProbe = false
			}
			h.X(tz, "reset", r.pick([]string{"--soft", "--mixed", "--hard"}), fmt.Sprintf("HEAD@{%d}", 1+r.intn(2)))
			h.X(tz, "status")
		}
	case "block-size-probe":
		// a tracked file whose size sits on (or next to) the block sizes readers use — 4096, 8192, 65536 — staged, then edited at
		// its very end (bytes appended, the last byte changed, one byte cut): `status` compares bytes, not blocks
		size := r.pick([]string{"4096", "4096", "8192", "65536", "4095", "4097", "512", "1024"})
		n := 0
		fmt.Sscanf(size, "%d", &n)
		f := h.randPath()
		base := bytes.Repeat([]byte("0123456789abcde\n"), n/16+1)[:n]
		h.W("write", f, base)
		h.X(tz, "add", f)
		if r.chance(1, 2) {
			h.X(tz, "commit", "-m", "a file of "+size+" bytes")
		}
		h.X(tz, "status")
		switch r.intn(4) {
		case 0, 1:
			h.W("write", f, append(append([]byte{}, base...), []byte("tail\n")...))
		case 2:
			nd := append([]byte{}, base...)
			nd[len(nd)-1] ^= 1
			h.W("write", f, nd)
		default:
			h.W("write", f, base[:len(base)-1])
		}
		h.X(tz, "status")
		if r.chance(1, 2) {
			h.X(tz, "restore", f)
			h.X(tz, "status")
		}
	case "restore-dir-probe":
		// a directory argument to `restore --staged` while the staging area and HEAD differ beneath it in several ways at
		// once: one committed path unstaged (rm), one restaged with new content, one new path staged, siblings untouched —
		// every path beneath the directory must come back to HEAD's state, the unstaged one re-created
		if d, ok := h.pickDir(); ok && IsTrackedDir(h.obs, d) {
			h.X(tz, "commit", "-m", "before the probe")
			var under []string
			for _, e := range h.obs.Index {
				if strings.HasPrefix(string(e.path), d+"/") {
					under = append(under, string(e.path))
				}
			}
			if len(under) >= 2 {
				i := r.intn(len(under))
				h.X(tz, "rm", under[i])
				if r.chance(2, 3) {
					j := (i + 1 + r.intn(len(under)-1)) % len(under)
					h.W("write", under[j], h.content())
					h.X(tz, "add", under[j])
				}
				if r.chance(1, 2) {
					n := d + "/" + h.comp()
					if _, on := h.obs.Files[n]; !on && !IsTrackedDir(h.obs, n) {
						h.W("write", n, h.content())
						h.X(tz, "add", n)
					}
				}
				h.X(tz, "restore", "--staged", d)
				h.X(tz, "ls-files")
				h.X(tz, "status")
			}
		}
	case "fd-swap":
		// a tracked directory replaced by a file of its name (or a tracked file by a directory), staged, then
		// `restore --staged` / `status` / `commit` on that name: HEAD holds the other kind under the same name
		if r.chance(1, 2) {
			if d, ok := h.pickDir(); ok && IsTrackedDir(h.obs, d) {
				h.X(tz, "rm", d)
				h.W("rmall", d, nil)
				h.W("write", d, h.content())
				h.X(tz, "add", d)
				h.X(tz, "status")
				if r.chance(2, 3) {
					h.X(tz, "restore", "--staged", d)
				} else {
					h.X(tz, "commit", "-m", "dir became a file")
				}
				h.X(tz, "status")
			}
		} else if f, ok := h.pickTracked(); ok && f != ".goitignore" {
			if _, on := h.obs.Files[f]; on {
				h.X(tz, "rm", f)
				h.W("write", f+"/"+h.comp(), h.content())
				h.X(tz, "add", f)
				h.X(tz, "status")
				h.X(tz, "restore", "--staged", f)
				h.X(tz, "status")
			}
		}
	case "config":
		k := r.pick([]string{"user.name", "user.email", "core.editor", "user.signingkey", "alias.co"})
		v := r.pick([]string{"Alice", "Bob Builder", "a@example.com", "b.c+d@mail.example.org", "vim", "x=y", "[v]", "# v", "\"q\"", "ünï"})
		if r.chance(1, 12) {
			// degenerate section / key names and values with a line break: to be refused, or stored so that they load
			k = r.pick([]string{".", ".name", "user.", "a]b.k", "[x].k", "sec tion.k", "user.na me", "u\nser.name"})
		} else if r.chance(1, 15) {
			v = r.pick([]string{"two\nlines", "cr\rlf", "line\n[user]\n\tname = Mallory"})
		}
		if r.chance(1, 4) {
			h.X(tz, "config", "--global", k, v)
		} else {
			h.X(tz, "config", k, v)
		}
	case "status":
		h.X(tz, "status")
	case "log":
		if r.chance(1, 2) {
			h.X(tz, "log")
		} else {
			if r.chance(1, 8) {
				h.X(tz, "log", "-n", r.pick([]string{"03", "010", "0x3", "+2", "1_0", "0b11", "-0", " 2", "2 "}))
			} else if r.chance(1, 10) {
				h.X(tz, "log", "-n", r.pick([]string{"1000000", "2147483647", "4294967296", "9223372036854775807"}))
			} else {
				h.X(tz, "log", "-n", fmt.Sprint(r.intn(8)))
			}
		}
	case "reflog":
		h.X(tz, "reflog")
	case "ls-files":
		if r.chance(2, 3) {
			h.X(tz, "ls-files", "-s")
		} else {
			h.X(tz, "ls-files")
		}
	case "rev-parse":
		n := "HEAD"
		if b, ok := h.pickBranch(); ok && r.chance(1, 2) {
			n = b
		}
		h.X(tz, "rev-parse", n)
	case "cat-file":
		var ids []string
		for id := range h.obs.Objects {
			ids = append(ids, id)
		}
		sort.Strings(ids)
		if len(ids) > 0 {
			h.X(tz, "cat-file", r.pick([]string{"-p", "-t"}), ids[r.intn(len(ids))])
		}
	case "write-tree":
		h.X(tz, "write-tree")
	case "hash-object":
		if f, ok := h.pickFile(); ok {
			h.X(tz, "hash-object", r.pick([]string{f, f, "./" + f, f + "/"}))
		}
		if r.chance(1, 4) {
			if d, ok := h.pickDir(); ok {
				h.X(tz, "hash-object", d)
			}
		}
	case "junk":
		h.junk(tz)
	}
}

func junkCands() [][]string {
	return [][]string{
		{"add"}, {"rm"}, {"commit"}, {"branch"}, {"branch", "a", "b"}, {"branch", "--list", "x"}, {"branch", "-r", "x", "-d", "y"},
		{"switch"}, {"switch", "a", "b"}, {"switch", "-c", "x", "y"}, {"reset"}, {"reset", "--soft"}, {"reset", "--soft", "--hard", "HEAD@{0}"},
		{"reset", "--mixed=false", "HEAD@{0}"}, {"restore"}, {"restore", "--staged"}, {"update-ref"}, {"update-ref", "refs/heads/main"},
		{"update-ref", "main", strings.Repeat("a", 40)}, {"update-ref", "refs/heads/main", "abc"}, {"update-ref", "refs/heads/main", strings.Repeat("g", 40)},
		{"config"}, {"config", "user.name"}, {"config", "username", "x"}, {"config", "a.b.c", "x"}, {"cat-file"}, {"cat-file", "-p"},
		{"cat-file", "-p", "-t", strings.Repeat("a", 40)}, {"cat-file", "-p", "zz"}, {"cat-file", "-t", strings.Repeat("0", 40)}, {"hash-object", "nonexistent"},
		{"hash-object", "."}, {"rev-parse", "nope"}, {"rev-parse"}, {"log", "-n", "-3"}, {"log", "-n", "0"}, {"ls-files"}, {"init"},
		{"rm", "a(b"}, {"restore", "a(b"}, {"restore", "--staged", "a[b"}, {"add", "no such file"}, {"rm", "*"}, {"restore", "+"}, {"rm", "."},
		{"branch", "a/b"}, {"branch", ".."}, {"branch", "../../HEAD"}, {"switch", "-c", "x/y"}, {"branch", "-r", "../x"}, {"branch", "-d", "../x"},
		{"frobnicate"}, {"status", "extra"}, {"reflog", "extra"},
		// names that are not branches but resolve, as file names beneath refs/heads, to something that exists
		{"switch", "."}, {"switch", ".."}, {"switch", "../HEAD"}, {"switch", "./main"}, {"switch", "main/"}, {"switch", "main/."}, {"switch", "-c", "."}, {"switch", "-c", ".."},
		{"branch", "."}, {"branch", "-d", "."}, {"branch", "-d", ".."}, {"branch", "-r", "."}, {"branch", "-r", ".."}, {"branch", "-d", "./main"}, {"branch", "-d", "main/"},
		{"update-ref", "refs/heads/.", strings.Repeat("a", 40)}, {"update-ref", "refs/heads/..", strings.Repeat("a", 40)},
		{"switch", "-c", "a: b"}, {"branch", "x: y"}, {"branch", "-r", "n: m"}, {"switch", "-c", "sp ace"}, {"branch", "tab\tname"}, {"switch", "-c", "ref: refs/heads/x"},
		{"switch", "a: b"}, {"switch", "sp ace"}, {"branch", "-d", "x: y"}, {"branch", "ünï"}, {"switch", "-c", "(paren"}, {"branch", "nl\nname"}, {"switch", "-c", "\nlead"}, {"branch", "-r", "\nlead2"}, {"switch", "-c", "\n"}, {"branch", "\nlead3"}, {"switch", "\nlead3"},
		// ids of every short length, one too long; empty arguments; numbers at and beyond the limits
		{"update-ref", "refs/heads/main", ""}, {"update-ref", "refs/heads/main", "a"}, {"update-ref", "refs/heads/main", "ab"},
		{"update-ref", "refs/heads/main", strings.Repeat("a", 39)}, {"update-ref", "refs/heads/main", strings.Repeat("a", 41)}, {"update-ref", "refs/heads/", strings.Repeat("a", 40)},
		{"rev-parse", ""}, {"rev-parse", "a"}, {"rev-parse", strings.Repeat("a", 39)}, {"cat-file", "-p", ""}, {"cat-file", "-t", "a"}, {"cat-file", "-p", strings.Repeat("a", 41)},
		{"add", ""}, {"rm", ""}, {"restore", ""}, {"restore", "--staged", ""}, {"switch", ""}, {"switch", "-c", ""}, {"branch", ""}, {"branch", "-d", ""}, {"branch", "-r", ""},
		{"config", "", "x"}, {"config", "user.name", ""}, {"config", ".", "x"}, {"config", "user.", "x"}, {"config", ".name", "x"}, {"hash-object", ""},
		{"reset", "HEAD@{99999999999999999999}"}, {"reset", "HEAD@{-1}"}, {"reset", "HEAD@{0}", "HEAD@{0}"}, {"reset", "--hard", "HEAD@{}"}, {"reset", "--soft", "HEAD@{ 1}"},
		{"log", "-n", "abc"}, {"log", "-n", "1000000"}, {"log", "-n", "2147483647"}, {"log", "-n", "4294967296"}, {"log", "-n", "9223372036854775807"}, {"log", "-n", "9223372036854775808"},
	}
}

// malformed / refused invocations
func (h *Hist) junk(tz int) {
	r := h.r
	cands := junkCands()
	h.X(tz, cands[r.intn(len(cands))]...)
}

func runHistCase(ctx *Ctx, cfg *HistCfg, r *rng, idx int) (Case, []string, []Finding, map[string]int, []Derived) {
	base := filepath.Join(ctx.Scratch, fmt.Sprintf("hist-%s-%d", cfg.Prop, idx))
	os.RemoveAll(base)
	h := &Hist{ctx: ctx, cfg: cfg, r: r, dir: filepath.Join(base, "w"), home: filepath.Join(base, "home"),
		g: &Ghost{SnapAt: map[string][]ent{}, Objects: map[string]string{}}, stats: map[string]int{}}
	mustMkdirAll(h.dir)
	mustMkdirAll(h.home)
	defer os.RemoveAll(base)
	if cfg.Names != nil {
		h.names = cfg.Names(r)
	} else {
		// a per-case subset keeps collisions (same name as file and directory, siblings) frequent;
		// one or two "families" X, X0, X2, X-old, X.x, X_old, "X e", aX put names that extend a
		// directory's name next to it (the byte after X sorts below or above '/')
		nf := 1 + r.intn(2)
		for f := 0; f < nf; f++ {
			base := r.pick([]string{"d", "lib", "test", "a", "src", "p(q)", "x+y", "ü"})
			fam := []string{base, base + "0", base + "2", base + "-old", base + ".x", base + "_old", base + " e", "a" + base, base + "s"}
			h.names = append(h.names, base)
			for i := 0; i < 3+r.intn(3); i++ {
				h.names = append(h.names, fam[r.intn(len(fam))])
			}
		}
		n := 1 + r.intn(4)
		for i := 0; i < n; i++ {
			h.names = append(h.names, defaultComponents[r.intn(len(defaultComponents))])
		}
	}
	h.obs = observe(h.dir, h.home)
	h.X(0, "init")
	if r.intn(100) >= cfg.NoIdent {
		// identities with the characters the record formats use as separators (": " ends the action word of a reflog
		// record, "<" opens the e-mail of a signature is excluded by the property's domain, two spaces, an apostrophe)
		name := "Test User"
		if r.chance(1, 6) {
			name = r.pick([]string{"Team: Core", "a: b: c", "Dr. X:  Y", "O'Brien", "commit: x", "x"})
		}
		h.X(0, "config", "user.name", name)
		h.X(0, "config", "user.email", "test@example.com")
	}
	if cfg.Setup != nil {
		cfg.Setup(r, h)
	}
	// most histories start with a commit (so that branches, resets, restores and the reflog have something
	// to work on); the fresh-repository state is kept for a fraction of the cases
	if cfg.CommitFirst || r.intn(100) >= cfg.FreshPct {
		h.W("write", h.randPath(), h.content())
		if r.chance(1, 2) {
			h.W("write", h.randPath(), h.content())
		}
		h.X(0, "add", ".")
		h.X(0, "commit", "-m", "first")
	}
	n := cfg.MinSteps + r.intn(cfg.MaxSteps-cfg.MinSteps+1)
	for i := 0; i < n; i++ {
		h.step()
	}
	// every 8th hostile history ends with the whole table of malformed invocations, in a rotated order, so
	// that each of them meets several reachable states in every run
	if cfg.LongChain && idx%10 == 3 {
		// a chain longer than any fixed small bound a walk might have (32, 40): `log -n k` lists min(k, length) commits
		k := 33 + r.intn(13)
		for j := 0; j < k; j++ {
			h.W("write", "chain.txt", []byte(fmt.Sprintf("link %d\n", j)))
			h.X(0, "add", "chain.txt")
			h.X(0, "commit", "-m", fmt.Sprintf("link %d", j))
		}
		for _, n := range []int{k, k - 1, k + 1, 32, 33, 50, 64, 65} {
			h.X(0, "log", "-n", fmt.Sprintf("%d", n))
		}
	}
	if cfg.JunkSweep && idx%8 == 0 {
		cands := junkCands()
		off := r.intn(len(cands))
		for i := range cands {
			h.X(0, cands[(i+off)%len(cands)]...)
		}
		// malformed variants of an id that exists (a string that merely contains 40 hex digits is not an id)
		var ids []string
		for id := range h.obs.Objects {
			ids = append(ids, id)
		}
		sort.Strings(ids)
		if len(ids) > 0 {
			id := ids[r.intn(len(ids))]
			for _, v := range []string{"x" + id, "g" + id, "HEAD:" + id, "'" + id + "'", " " + id, id + "~", id + " ", "ab" + id, strings.ToUpper(id), id[:39] + "G", "-" + id} {
				h.X(0, "cat-file", r.pick([]string{"-p", "-t"}), v)
				if r.chance(1, 3) {
					h.X(0, "update-ref", "refs/heads/main", v)
				}
				if r.chance(1, 3) {
					h.X(0, "rev-parse", v)
				}
			}
		}
	}
	c := Case{Name: fmt.Sprintf("hist-%d", idx), Lines: h.lines, Tag: fmt.Sprintf("steps<%d", (len(h.lines)/10+1)*10)}
	for i := range h.viols {
		h.viols[i].Case = c
	}
	for i := range h.derived {
		h.derived[i].Case = c
	}
	if len(h.world) > 0 && os.Getenv("VERIF_NO_WORLD") == "" {
		c.World = buildWorldScript(h.world)
	}
	return c, h.outs, h.viols, h.stats, h.derived
}

// runHistories executes cfg.Cases adaptive histories in parallel.
func runHistories(ctx *Ctx, cfg *HistCfg, r *rng) ([]Case, [][]string, []Finding, map[string]int, []Derived) {
	n := cfg.Cases
	cases := make([]Case, n)
	outs := make([][]string, n)
	fnds := make([][]Finding, n)
	stats := make([]map[string]int, n)
	ders := make([][]Derived, n)
	seeds := make([]*rng, n)
	for i := range seeds {
		seeds[i] = r.fork()
	}
	var wg sync.WaitGroup
	sem := make(chan struct{}, ctx.Workers)
	for i := 0; i < n; i++ {
		wg.Add(1)
		sem <- struct{}{}
		go func(i int) {
			defer wg.Done()
			defer func() { <-sem }()
			cases[i], outs[i], fnds[i], stats[i], ders[i] = runHistCase(ctx, cfg, seeds[i], i)
		}(i)
	}
	wg.Wait()
	var all []Finding
	total := map[string]int{}
	for i := range fnds {
		all = append(all, fnds[i]...)
		for k, v := range stats[i] {
			total[k] += v
		}
	}
	var allD []Derived
	for i := range ders {
		allD = append(allD, ders[i]...)
	}
	return cases, outs, all, total, allD
}

// replayScript re-executes a recorded script (W/X lines) with the oracles of cfg.
func replayScript(ctx *Ctx, cfg *HistCfg, lines []string, idx int) (Case, []string, []Finding) {
	base := filepath.Join(ctx.Scratch, fmt.Sprintf("replay-%s-%d", cfg.Prop, idx))
	os.RemoveAll(base)
	h := &Hist{ctx: ctx, cfg: cfg, r: newRng(1), dir: filepath.Join(base, "w"), home: filepath.Join(base, "home"),
		g: &Ghost{SnapAt: map[string][]ent{}, Objects: map[string]string{}}, stats: map[string]int{}}
	mustMkdirAll(h.dir)
	mustMkdirAll(h.home)
	defer os.RemoveAll(base)
	h.obs = observe(h.dir, h.home)
	for _, l := range lines {
		f := strings.Split(l, " ")
		switch f[0] {
		case "W":
			if len(f) >= 4 {
				h.W(f[1], string(unhx(f[2])), unhx(f[3]))
			}
		case "X":
			if len(f) >= 3 {
				var tz int
				fmt.Sscanf(f[1], "%d", &tz)
				var args []string
				for _, a := range strings.Split(f[2], ",") {
					args = append(args, string(unhx(a)))
				}
				h.X(tz, args...)
			}
		}
	}
	c := Case{Name: fmt.Sprintf("replay-%d", idx), Lines: h.lines, Tag: "corpus"}
	for i := range h.viols {
		h.viols[i].Case = c
	}
	return c, h.outs, h.viols
}
