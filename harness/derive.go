package main

// Command-level correspondence: from an observed CLI transition (state before, command, outcome, state
// after) derive the query for the Lean command model (`GoitModel/Cmds.lean`) and the implementation's
// answer in the model's output format.

import (
	"bytes"
	"fmt"
	"sort"
	"strconv"
	"strings"
)

type Derived struct {
	Line   string
	Impl   string
	Verify func(model string) string // optional: "" when the model's answer matches the observed transition
	Case   Case
	Step   int
}

func filesOut(m map[string][]byte) string {
	var ks []string
	for k := range m {
		ks = append(ks, k)
	}
	sort.Strings(ks)
	var xs []string
	for _, k := range ks {
		xs = append(xs, hx([]byte(k))+":"+hx(m[k]))
	}
	return listOut(xs)
}

func dirsOut(ds []string) string {
	var xs []string
	for _, d := range ds {
		xs = append(xs, hx([]byte(d)))
	}
	return listOut(xs)
}

func pathsOut(ps []string) string {
	sort.Slice(ps, func(i, j int) bool { return bytes.Compare([]byte(ps[i]), []byte(ps[j])) < 0 })
	var xs []string
	for _, p := range ps {
		xs = append(xs, hx([]byte(p)))
	}
	return listOut(xs)
}

func ignoreOut(o *Obs) string {
	b, ok := o.Files[".goitignore"]
	if !ok {
		return "none"
	}
	return hx(b)
}

func argsOK(args []string) bool {
	for _, a := range args {
		if a == "" || strings.Contains(a, "\\") || strings.Contains(a, "..") || strings.HasPrefix(a, "/") || strings.HasPrefix(a, "-") || strings.ContainsAny(a, "\n\x00") {
			return false
		}
	}
	return len(args) > 0
}

func argsOut(args []string) string {
	var xs []string
	for _, a := range args {
		xs = append(xs, hx([]byte(a)))
	}
	return listOut(xs)
}

func ignoreDomainOK(o *Obs) bool {
	for _, l := range ignoreLines(o) {
		for _, c := range []byte(l) {
			if c < 32 || c > 126 {
				return false
			}
		}
	}
	return true
}

// configLoads: the config file is one Goit loads (a file it rejects makes every command fail at start-up,
// which the command models, apart from `commit`, do not take as an input)
func configLoads(b []byte) bool {
	sec := false
	for _, l := range strings.Split(string(b), "\n") {
		l = strings.TrimSuffix(l, "\r")
		if strings.HasPrefix(l, "[") && strings.HasSuffix(l, "]") && len(l) >= 2 {
			if len(l) <= 2 {
				return false
			}
			sec = true
			continue
		}
		t := strings.TrimSpace(strings.ReplaceAll(l, "\t", ""))
		if t == "" {
			continue
		}
		if !strings.Contains(t, "=") || !sec {
			return false
		}
	}
	return true
}

// cfgMapOut: sections sorted by name, keys sorted, in the model driver's format
func cfgMapOut(m map[string]map[string]string) string {
	var names []string
	for n := range m {
		names = append(names, n)
	}
	sort.Strings(names)
	var xs []string
	for _, n := range names {
		var ks []string
		for k := range m[n] {
			ks = append(ks, k)
		}
		sort.Strings(ks)
		var kv []string
		for _, k := range ks {
			kv = append(kv, hx([]byte(k))+":"+hx([]byte(m[n][k])))
		}
		xs = append(xs, hx([]byte(n))+"="+strings.Join(kv, "+"))
	}
	return listOut(xs)
}

func deriveCmdLine(t *Trans) *Derived {
	if len(t.Args) == 0 || !t.Pre.Inited || !t.Pre.IndexOK || len(t.Pre.Files) > 40 || !ignoreDomainOK(t.Pre) {
		return nil
	}
	if t.Args[0] != "commit" && (!configLoads(t.Pre.CfgLocal) || !configLoads(t.Pre.CfgGlobal)) {
		return nil
	}
	if t.Res.Class != "ok" && t.Res.Class != "error" {
		return nil
	}
	pre, post := t.Pre, t.Post
	if _, ok := pre.headBranch(); !ok {
		return nil
	}
	switch t.Args[0] {
	case "status":
		if len(t.Args) != 1 {
			return nil
		}
		snap := []ent{}
		hasHead := "0"
		if id := pre.headCommit(); id != "" {
			es, _, ok := pre.commitSnapshot(id)
			if !ok {
				return nil
			}
			// the model rebuilds HEAD's tree from the snapshot entries: only when the snapshot is what
			// writeTreeObject was given (sorted, as every index Goit writes is)
			snap = es
			hasHead = "1"
		}
		line := fmt.Sprintf("cmd.status %s %s %s %s %s %s", entriesOut(pre.Index), filesOut(pre.Files), dirsOut(pre.Dirs), ignoreOut(pre), entriesOut(snap), hasHead)
		impl := "err"
		if t.Res.Class == "ok" {
			st := parseStatus(t.Res.Stdout)
			idx := idxMap(pre.Index)
			snapM := idxMap(snap)
			var ds []string
			for p, k := range st.Staged {
				id := idx[p]
				kk := map[string]string{"new file": "N", "modified": "M", "deleted": "D"}[k]
				if kk == "D" {
					id = snapM[p]
				}
				ds = append(ds, kk+":"+id+":"+hx([]byte(p)))
			}
			sort.Strings(ds)
			impl = "ok S=" + listOut(ds) + " M=" + pathsOut(st.Modified) + " D=" + pathsOut(st.Deleted) + " U=" + pathsOut(st.Untracked)
		}
		return &Derived{Line: line, Impl: impl}
	case "add":
		args := t.Args[1:]
		if !argsOK(args) {
			return nil
		}
		// the model knows Goit's directory only as "exists": arguments inside it are compared only when
		// they name something `init` always creates
		for _, a := range args {
			c := cleanArg(a)
			if strings.HasPrefix(c, ".goit/") && !map[string]bool{".goit/HEAD": true, ".goit/config": true, ".goit/objects": true, ".goit/refs": true, ".goit/refs/heads": true, ".goit/refs/tags": true}[c] {
				return nil
			}
		}
		line := fmt.Sprintf("cmd.add %s %s %s %s %s", entriesOut(pre.Index), filesOut(pre.Files), dirsOut(pre.Dirs), ignoreOut(pre), argsOut(args))
		impl := "err"
		if t.Res.Class == "ok" {
			impl = "ok " + entriesOut(post.Index)
		}
		return &Derived{Line: line, Impl: impl}
	case "commit":
		// goit commit [-m msg]: the model predicts the id of the new commit object (root tree of the staged
		// entries, parent, configured identity, message) or the refusal
		msg := ""
		switch {
		case len(t.Args) == 1:
		case len(t.Args) == 3 && t.Args[1] == "-m":
			msg = t.Args[2]
		default:
			return nil
		}
		hb, _ := pre.headBranch()
		anyB, snapS, brS := "0", "none", "none"
		if len(pre.Branches) > 0 {
			anyB = "1"
		}
		if raw, ok := pre.Branches[hb]; ok {
			brS = hx(raw)
			es, _, ok := pre.commitSnapshot(string(raw))
			if !ok {
				return nil
			}
			snapS = entriesOut(es)
		} else if anyB == "1" {
			return nil // HEAD names a branch without a file while other branches exist: outside the model
		}
		cl, cg := "none", "none"
		if pre.HasCfgLocal {
			cl = hx(pre.CfgLocal)
		}
		if pre.HasCfgGlob {
			cg = hx(pre.CfgGlobal)
		}
		unix := "0"
		impl := "err"
		if t.Res.Class == "ok" {
			id := post.headCommit()
			x := post.Objects[id]
			if x == nil || !x.OK || x.Kind != "commit" {
				return nil
			}
			// the clock is an input: taken from what was written
			a := parseCommit(x.Data).Author
			f := strings.Fields(a)
			if len(f) < 2 {
				return nil
			}
			unix = f[len(f)-2]
			impl = "ok " + id
		}
		line := fmt.Sprintf("cmd.commit %s %s %s %s %s %s %s %d %s", entriesOut(pre.Index), snapS, brS, anyB, cl, cg, unix, t.TZ, hx([]byte(msg)))
		return &Derived{Line: line, Impl: impl}
	case "hash-object":
		// goit hash-object <file>: the model hashes 'blob <len>\0<bytes>' with its own SHA-1
		if len(t.Args) != 2 || !argsOK(t.Args[1:]) || strings.HasSuffix(t.Args[1], "/") {
			return nil
		}
		data, ok := pre.Files[cleanArg(t.Args[1])]
		if !ok || t.Res.Class != "ok" {
			return nil
		}
		return &Derived{Line: "sha " + hx(objContent("blob", data)), Impl: strings.TrimSuffix(t.Res.Stdout, "\n")}
	case "cat-file":
		if len(t.Args) != 3 || (t.Args[1] != "-t" && t.Args[1] != "-p") {
			return nil
		}
		x, ok := pre.Objects[t.Args[2]]
		if !ok || !x.OK || !x.NameOK || (t.Args[1] == "-p" && x.Kind == "tree") || strings.Contains(string(x.Data), "\x1b") {
			return nil
		}
		impl := "err"
		if t.Res.Class == "ok" {
			impl = "ok " + hx([]byte(t.Res.Stdout))
		}
		return &Derived{Line: fmt.Sprintf("cmd.cat-file %s %s", t.Args[1], hx(objContent(x.Kind, x.Data))), Impl: impl}
	case "config":
		// goit config [--global] <section>.<key> <value>: the rewritten file, as it loads again
		global := false
		var rest []string
		for _, a := range t.Args[1:] {
			if a == "--global" {
				global = true
			} else if strings.HasPrefix(a, "-") && len(rest) == 0 {
				return nil
			} else {
				rest = append(rest, a)
			}
		}
		if len(rest) != 2 {
			return nil
		}
		file, has, after := pre.CfgLocal, pre.HasCfgLocal, post.CfgLocal
		if global {
			file, has, after = pre.CfgGlobal, pre.HasCfgGlob, post.CfgGlobal
		}
		fS := "none"
		if has {
			fS = hx(file)
		}
		line := fmt.Sprintf("cmd.config %s %s %s", fS, hx([]byte(rest[0])), hx([]byte(rest[1])))
		impl := "err"
		if t.Res.Class == "ok" {
			impl = "ok " + cfgMapOut(parseConfigFile(after))
		}
		return &Derived{Line: line, Impl: impl}
	case "reflog":
		if len(t.Args) != 1 {
			return nil
		}
		line := "cmd.reflog none"
		if pre.HasLogHead {
			line = "cmd.reflog " + hx(pre.LogHead)
			if pre.headCommit() == "" {
				return nil // records but no commit under HEAD: not a state the commands produce
			}
		}
		impl := "err"
		if t.Res.Class == "ok" {
			ls, ok := parseReflogOut(t.Res.Stdout)
			if !ok {
				return nil
			}
			var xs []string
			for _, l := range ls {
				xs = append(xs, fmt.Sprintf("%d:%s:%s:%s", l.Pos, l.Hash, l.Kind, hx([]byte(l.Msg))))
			}
			impl = "ok " + listOut(xs)
		}
		return &Derived{Line: line, Impl: impl}
	case "log":
		// goit log [-n k]: the model walks the stored commit objects from HEAD's commit
		k := int64(5) // the default is a regenerated fact (FactsCheck: log default)
		switch {
		case len(t.Args) == 1:
		case len(t.Args) == 3 && t.Args[1] == "-n":
			// pflag parses integers with base 0: 010 is octal eight, 0x10 sixteen, 1_0 ten, +3 three
			v, err := strconv.ParseInt(t.Args[2], 0, 64)
			if err != nil {
				return nil
			}
			k = v
		default:
			return nil
		}
		hb, _ := pre.headBranch()
		raw, has := pre.Branches[hb]
		anyB := "0"
		if len(pre.Branches) > 0 {
			anyB = "1"
			if !has {
				return nil
			}
		}
		var objs []string
		var cids []string
		for id := range pre.Objects {
			cids = append(cids, id)
		}
		sort.Strings(cids)
		for _, id := range cids {
			if x := pre.Objects[id]; x != nil && x.OK && x.Kind == "commit" {
				objs = append(objs, id+"="+hx(objContent("commit", x.Data)))
			}
		}
		obS := "-"
		if len(objs) > 0 {
			obS = strings.Join(objs, ";")
		}
		hd := "-"
		if has {
			hd = string(raw)
		}
		line := fmt.Sprintf("cmd.log %s %s %d %s", anyB, hd, k, obS)
		impl := "err"
		if t.Res.Class == "ok" {
			var ids []string
			for _, g := range parseLogOut(t.Res.Stdout) {
				ids = append(ids, g.ID)
			}
			impl = "ok " + listOut(ids)
		}
		return &Derived{Line: line, Impl: impl}
	case "reset":
		// goit reset [--soft|--mixed|--hard] HEAD@{n}: the model decides mode, position, target commit and the
		// staging area afterwards from the flags, the argument, the bytes of logs/HEAD and the stored snapshots
		so, mi, ha := "0", "1", "0"
		var rest []string
		for _, a := range t.Args[1:] {
			switch {
			case a == "--soft":
				so = "1"
			case a == "--mixed":
				mi = "1"
			case a == "--hard":
				ha = "1"
			case strings.HasPrefix(a, "-"):
				return nil
			default:
				rest = append(rest, a)
			}
		}
		if len(rest) != 1 || !pre.HasLogHead || strings.ContainsAny(rest[0], "\n\x00") {
			return nil
		}
		var sn []string
		var cids []string
		for id := range pre.Objects {
			cids = append(cids, id)
		}
		sort.Strings(cids)
		for _, id := range cids {
			if x := pre.Objects[id]; x != nil && x.OK && x.Kind == "commit" {
				if es, _, ok := pre.commitSnapshot(id); ok {
					sn = append(sn, id+"="+entriesOut(es))
				} else {
					return nil
				}
			}
		}
		snS := "-"
		if len(sn) > 0 {
			snS = strings.Join(sn, ";")
		}
		line := fmt.Sprintf("cmd.reset %s %s %s %s %s %s %s", so, mi, ha, hx([]byte(rest[0])), hx(pre.LogHead), snS, entriesOut(pre.Index))
		impl := "err"
		if t.Res.Class == "ok" {
			impl = "ok"
		}
		return &Derived{Line: line, Impl: impl, Verify: func(model string) string {
			f := strings.Split(model, " ")
			if f[0] != "ok" {
				if t.Res.Class == "ok" {
					return "the model refuses, the implementation succeeded"
				}
				return ""
			}
			if len(f) != 4 {
				return "malformed model answer"
			}
			es := entriesIn(f[2])
			blocked := false
			want := map[string][]byte{}
			for k, v := range pre.Files {
				want[k] = v
			}
			if f[3] == "1" {
				for _, e := range es {
					x, ok := pre.Objects[hx(e.id)]
					p := string(e.path)
					if !ok || !x.OK || isDirIn(pre, p) {
						blocked = true
						continue
					}
					for q := range pre.Files {
						if under(q, p) {
							blocked = true
						}
					}
					want[p] = x.Data
				}
				for _, a := range es {
					for _, b := range es {
						if under(string(a.path), string(b.path)) {
							blocked = true
						}
					}
				}
			}
			if t.Res.Class != "ok" {
				if blocked {
					return ""
				}
				return "the model resets, the implementation exited with an error"
			}
			if post.headCommit() != f[1] {
				return "the current branch is not at the model's target " + f[1]
			}
			if entriesOut(post.Index) != f[2] {
				return "staging area after reset differs from the model's"
			}
			if !blocked {
				if d, ok := filesEqual(want, post.Files); !ok {
					return "work tree after reset differs from the model's: " + d
				}
			}
			return ""
		}}
	case "rm":
		args := t.Args[1:]
		if !argsOK(args) {
			return nil
		}
		// a tracked path occupied by a directory makes os.Remove fail: outside the model
		for _, e := range pre.Index {
			if isDirIn(pre, string(e.path)) {
				return nil
			}
		}
		line := fmt.Sprintf("cmd.rm %s %s %s %s", entriesOut(pre.Index), filesOut(pre.Files), dirsOut(pre.Dirs), argsOut(args))
		impl := "err"
		if t.Res.Class == "ok" {
			impl = "ok"
		}
		return &Derived{Line: line, Impl: impl, Verify: func(model string) string {
			f := strings.Split(model, " ")
			if f[0] != "ok" {
				if t.Res.Class == "ok" {
					return "the model refuses, the implementation succeeded"
				}
				return ""
			}
			if t.Res.Class != "ok" {
				return "the model succeeds, the implementation exited with an error"
			}
			if len(f) != 3 {
				return "malformed model answer"
			}
			if f[1] != entriesOut(post.Index) {
				return "staging area after rm differs from the model's"
			}
			want := map[string][]byte{}
			for k, v := range pre.Files {
				want[k] = v
			}
			for _, p := range splitList(f[2]) {
				delete(want, string(unhx(p)))
			}
			if d, ok := filesEqual(want, post.Files); !ok {
				return "work tree after rm differs from the model's: " + d
			}
			return ""
		}}
	case "restore":
		args := t.Args[1:]
		for i, a := range args {
			if a == "--staged" {
				rest := append(append([]string{}, args[:i]...), args[i+1:]...)
				id := pre.headCommit()
				if !argsOK(rest) || id == "" {
					return nil
				}
				snap, _, ok := pre.commitSnapshot(id)
				if !ok {
					return nil
				}
				line := fmt.Sprintf("cmd.restore-staged %s %s %s", entriesOut(pre.Index), entriesOut(snap), argsOut(rest))
				impl := "err " + entriesOut(post.Index)
				if t.Res.Class == "ok" {
					impl = "ok " + entriesOut(post.Index)
				}
				return &Derived{Line: line, Impl: impl}
			}
		}
		if !argsOK(args) {
			return nil
		}
		line := fmt.Sprintf("cmd.restore %s %s", entriesOut(pre.Index), argsOut(args))
		impl := "err"
		if t.Res.Class == "ok" {
			impl = "ok"
		}
		return &Derived{Line: line, Impl: impl, Verify: func(model string) string {
			f := strings.SplitN(model, " ", 2)
			if f[0] != "ok" {
				if t.Res.Class == "ok" {
					return "the model refuses, the implementation succeeded"
				}
				return ""
			}
			if len(f) != 2 {
				return "malformed model answer"
			}
			want := map[string][]byte{}
			for k, v := range pre.Files {
				want[k] = v
			}
			blocked := false
			for _, e := range entriesIn(f[1]) {
				x, ok := pre.Objects[hx(e.id)]
				if !ok {
					return ""
				}
				p := string(e.path)
				// an untracked file or directory in the way makes the real command fail: unconstrained
				if isDirIn(pre, p) {
					blocked = true
				}
				for q := range pre.Files {
					if under(q, p) {
						blocked = true
					}
				}
				want[p] = x.Data
			}
			// two tracked paths of which one lies beneath the other cannot both exist on disk
			es := entriesIn(f[1])
			for _, a := range es {
				for _, b := range es {
					if under(string(a.path), string(b.path)) {
						blocked = true
					}
				}
			}
			if blocked {
				return ""
			}
			if t.Res.Class != "ok" {
				return "the model restores, the implementation exited with an error"
			}
			if d, ok := filesEqual(want, post.Files); !ok {
				return "work tree after restore differs from the model's: " + d
			}
			return ""
		}}
	}
	return nil
}
