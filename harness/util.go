package main

import (
	"bytes"
	"compress/zlib"
	"crypto/sha1"
	"encoding/binary"
	"encoding/hex"
	"fmt"
	"io"
	"os"
	"path/filepath"
	"sort"
	"strings"
)

// ---- hex helpers of the line protocol ----

func hx(b []byte) string {
	if len(b) == 0 {
		return "-"
	}
	return hex.EncodeToString(b)
}

func unhx(s string) []byte {
	if s == "-" {
		return []byte{}
	}
	b, err := hex.DecodeString(s)
	if err != nil {
		return []byte{}
	}
	return b
}

func listOut(xs []string) string {
	if len(xs) == 0 {
		return "-"
	}
	return strings.Join(xs, ",")
}

func splitList(s string) []string {
	if s == "-" {
		return nil
	}
	return strings.Split(s, ",")
}

type ent struct {
	id   []byte
	path []byte
}

func entriesIn(s string) []ent {
	var out []ent
	for _, x := range splitList(s) {
		p := strings.Split(x, ":")
		if len(p) != 2 {
			out = append(out, ent{})
			continue
		}
		out = append(out, ent{unhx(p[0]), unhx(p[1])})
	}
	return out
}

func entriesOut(es []ent) string {
	var xs []string
	for _, e := range es {
		xs = append(xs, hx(e.id)+":"+hx(e.path))
	}
	return listOut(xs)
}

// ---- independent codecs (written against the on-disk formats, not against Goit) ----

func deflate(content []byte) []byte {
	var b bytes.Buffer
	w := zlib.NewWriter(&b)
	w.Write(content)
	w.Close()
	return b.Bytes()
}

func inflate(file []byte) ([]byte, error) {
	r, err := zlib.NewReader(bytes.NewReader(file))
	if err != nil {
		return nil, err
	}
	defer r.Close()
	return io.ReadAll(r)
}

func sha1sum(b []byte) []byte {
	s := sha1.Sum(b)
	return s[:]
}

// encodeIndex writes the documented layout: "DIRC", version 1, count, then id(20) len(2) path.
func encodeIndex(es []ent) []byte {
	var b bytes.Buffer
	b.WriteString("DIRC")
	binary.Write(&b, binary.BigEndian, uint32(1))
	binary.Write(&b, binary.BigEndian, uint32(len(es)))
	for _, e := range es {
		b.Write(e.id)
		binary.Write(&b, binary.BigEndian, uint16(len(e.path)))
		b.Write(e.path)
	}
	return b.Bytes()
}

// decodeIndex: independent strict reader; ok=false when the file does not decode completely.
func decodeIndex(f []byte) (es []ent, ok bool) {
	if len(f) < 12 {
		return nil, false
	}
	n := binary.BigEndian.Uint32(f[8:12])
	p := 12
	for i := uint32(0); i < n; i++ {
		if p+22 > len(f) {
			return nil, false
		}
		id := append([]byte{}, f[p:p+20]...)
		l := int(binary.BigEndian.Uint16(f[p+20 : p+22]))
		p += 22
		if p+l > len(f) {
			return nil, false
		}
		es = append(es, ent{id, append([]byte{}, f[p:p+l]...)})
		p += l
	}
	if p != len(f) {
		return es, false
	}
	return es, true
}

func sortEnts(es []ent) {
	sort.SliceStable(es, func(i, j int) bool { return bytes.Compare(es[i].path, es[j].path) < 0 })
}

func mustMkdirAll(p string) {
	if err := os.MkdirAll(p, 0o777); err != nil {
		panic(err)
	}
}

func writeFile(p string, b []byte) {
	mustMkdirAll(filepath.Dir(p))
	if err := os.WriteFile(p, b, 0o666); err != nil {
		panic(err)
	}
}

func die(format string, a ...interface{}) {
	fmt.Fprintf(os.Stderr, format+"\n", a...)
	os.Exit(2)
}

// splitmix64: the single PRNG every generator draws from
type rng struct{ s uint64 }

// the state is a hash of the seed: with a linear map consecutive seeds gave shifted copies of one stream,
// which re-synchronise after a few draws (seeds 1..4 once produced identical C17 histories)
func newRng(seed uint64) *rng {
	z := seed*0x9E3779B97F4A7C15 + 0x1234567
	z = (z ^ (z >> 30)) * 0xBF58476D1CE4E5B9
	z = (z ^ (z >> 27)) * 0x94D049BB133111EB
	return &rng{s: z ^ (z >> 31)}
}
func (r *rng) u64() uint64 {
	r.s += 0x9E3779B97F4A7C15
	z := r.s
	z = (z ^ (z >> 30)) * 0xBF58476D1CE4E5B9
	z = (z ^ (z >> 27)) * 0x94D049BB133111EB
	return z ^ (z >> 31)
}
func (r *rng) intn(n int) int {
	if n <= 0 {
		return 0
	}
	return int(r.u64() % uint64(n))
}
func (r *rng) chance(num, den int) bool { return r.intn(den) < num }
func (r *rng) pick(xs []string) string  { return xs[r.intn(len(xs))] }
func (r *rng) bytesN(n int) []byte {
	b := make([]byte, n)
	for i := range b {
		b[i] = byte(r.u64())
	}
	return b
}
func (r *rng) fork() *rng { return newRng(r.u64()) }
func (r *rng) pickByte(bs []byte) byte { return bs[r.intn(len(bs))] }
func (r *rng) pick3(a, b, c int) int { return []int{a, b, c}[r.intn(3)] }
