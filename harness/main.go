package main

import (
	"flag"
	"fmt"
	"os"
	"runtime"
	"strconv"
)

func main() {
	if len(os.Args) < 2 {
		die("usage: harness api <dir> <goit> | run -prop Cxx ...")
	}
	switch os.Args[1] {
	case "api":
		apiMain(os.Args[2], os.Args[3])
	case "run":
		fs := flag.NewFlagSet("run", flag.ExitOnError)
		prop := fs.String("prop", "", "property id")
		tier := fs.String("tier", "quick", "quick|thorough")
		seed := fs.Uint64("seed", 1, "PRNG seed")
		goit := fs.String("goit", "", "goit binary built from the current tree")
		model := fs.String("model", "", "Lean model driver binary")
		scratch := fs.String("scratch", "", "scratch directory")
		audit := fs.String("audit", "", "output of Audit.lean")
		facts := fs.String("facts", "ok", "status of the generated facts check")
		api := fs.String("api", "ok", "status of the in-process driver build")
		evidence := fs.String("evidence", "", "evidence file to write")
		verif := fs.String("verif", "/verif", "verif directory")
		replay := fs.String("replay", "", "replay file: re-run only its recorded cases")
		fs.Parse(os.Args[2:])
		if s := os.Getenv("VERIF_SEED"); s != "" {
			if v, err := strconv.ParseUint(s, 10, 64); err == nil {
				*seed = v
			}
		}
		self, _ := os.Executable()
		ctx := &Ctx{Prop: *prop, Tier: *tier, Seed: *seed, Goit: *goit, Model: *model, Scratch: *scratch,
			Workers: runtime.NumCPU(), Self: self, VerifDir: *verif, Replay: *replay}
		ck, ok := checks[*prop]
		if !ok {
			die("unknown property %s", *prop)
		}
		ctx.APIStatus = *api
		os.Exit(runCheck(ctx, ck, *audit, *facts, *evidence))
	default:
		fmt.Fprintln(os.Stderr, "unknown subcommand")
		os.Exit(2)
	}
}
