package main

// strace-based view of one goit invocation: the sequence of file-system calls on repository paths,
// with payloads. Used by C15 (crash states = prefixes of the mutation sequence, rebuilt on a copy of
// the pre-state) and C16 (fault injection at every call).

import (
	"bytes"
	"fmt"
	"os"
	"os/exec"
	"path/filepath"
	"regexp"
	"strconv"
	"strings"
)

type Sys struct {
	Name  string // openat write read mkdirat renameat unlinkat getdents64 ...
	Kind  string // create | openappend | openread | write | read | readdir | mkdir | rename | remove
	Path  string // absolute
	Path2 string
	Data  []byte
	Ret   int
	Errno string
	Ord   int // ordinal among calls of the same syscall name *on this path* (1-based), for injection
	Role  string
}

var resumedRe = regexp.MustCompile(`^(\d+)\s+<\.\.\. (\w+) resumed>(.*)$`)
var sysLineRe = regexp.MustCompile(`^(\d+)\s+(\w+)\((.*)\)\s+=\s+(-?\d+|\?)(?:\s+(\w+).*)?$`)

func unhexC(s string) []byte {
	// "\x2f\x76..." possibly with trailing "..."
	var out []byte
	for i := 0; i+3 < len(s)+1 && i < len(s); {
		if s[i] == '\\' && i+3 < len(s)+0 && s[i+1] == 'x' {
			v, err := strconv.ParseUint(s[i+2:i+4], 16, 8)
			if err != nil {
				break
			}
			out = append(out, byte(v))
			i += 4
		} else {
			out = append(out, s[i])
			i++
		}
	}
	return out
}

// splitArgs splits the argument list at top-level commas (strings are quoted, may contain commas only hex-escaped)
func splitArgs(s string) []string {
	var out []string
	depth, inq, start := 0, false, 0
	for i := 0; i < len(s); i++ {
		c := s[i]
		switch {
		case c == '"' && (i == 0 || s[i-1] != '\\'):
			inq = !inq
		case inq:
		case c == '(' || c == '{' || c == '[':
			depth++
		case c == ')' || c == '}' || c == ']':
			depth--
		case c == ',' && depth == 0:
			out = append(out, strings.TrimSpace(s[start:i]))
			start = i + 1
		}
	}
	out = append(out, strings.TrimSpace(s[start:]))
	return out
}

func quoted(a string) []byte {
	a = strings.TrimSuffix(a, "...")
	if len(a) >= 2 && a[0] == '"' {
		return unhexC(a[1 : len(a)-1])
	}
	return nil
}

func roleOf(root, home, p string) string {
	g := filepath.Join(root, ".goit")
	rel, err := filepath.Rel(g, p)
	if err == nil && !strings.HasPrefix(rel, "..") {
		rel = filepath.ToSlash(rel)
		switch {
		case rel == "HEAD":
			return "HEAD"
		case rel == "index":
			return "index"
		case rel == "config":
			return "config"
		case strings.HasPrefix(rel, "refs/heads/"):
			return "branch"
		case strings.HasPrefix(rel, "objects/") && strings.Count(rel, "/") == 2:
			return "object"
		case strings.HasPrefix(rel, "objects/") && strings.Count(rel, "/") == 1:
			return "objdir"
		case rel == "logs/HEAD":
			return "logHEAD"
		case strings.HasPrefix(rel, "logs/refs/heads/"):
			return "logbranch"
		default:
			return "meta:" + rel
		}
	}
	if p == filepath.Join(home, ".goitconfig") {
		return "config"
	}
	if r, err := filepath.Rel(root, p); err == nil && !strings.HasPrefix(r, "..") {
		return "work"
	}
	return ""
}

// straceGoit runs goit under strace and returns the calls on repository paths in order.
func straceGoit(goit, dir, home string, tz int, args []string, inject string, scratch string) (RunRes, []Sys, bool) {
	tf := filepath.Join(scratch, fmt.Sprintf("trace-%d.txt", os.Getpid()))
	os.Remove(tf)
	sa := []string{"-f", "-qq", "-s", "4000000", "-xx", "-o", tf,
		"-e", "trace=openat,write,read,mkdir,mkdirat,rename,renameat,renameat2,unlink,unlinkat,close,getdents64"}
	if inject != "" {
		sa = append(sa, strings.Fields(inject)...)
	}
	sa = append(sa, goit)
	sa = append(sa, args...)
	res := runGoit("strace", dir, home, tz, sa)
	b, err := os.ReadFile(tf)
	os.Remove(tf)
	if err != nil {
		return res, nil, false
	}
	reliable := true
	fds := map[string]string{} // "pid-independent": fd -> path (threads share the table)
	var out []Sys
	count := map[string]int{}
	pending := map[string]string{} // pid -> text before "<unfinished ...>"
	for _, line := range bytes.Split(b, []byte("\n")) {
		l := string(line)
		// a call interrupted by another thread's output is printed in two pieces: join them
		if i := strings.Index(l, " <unfinished ...>"); i >= 0 {
			if sp := strings.IndexByte(l, ' '); sp > 0 {
				pending[l[:sp]] = l[:i]
			}
			continue
		}
		if rm := resumedRe.FindStringSubmatch(l); rm != nil {
			pre, ok := pending[rm[1]]
			if !ok {
				reliable = false
				continue
			}
			delete(pending, rm[1])
			l = pre + rm[3]
		}
		m := sysLineRe.FindStringSubmatch(l)
		if m == nil {
			continue
		}
		name, argstr, rets, errno := m[2], m[3], m[4], m[5]
		ret, _ := strconv.Atoi(rets)
		a := splitArgs(argstr)
		abs := func(p []byte) string {
			s := string(p)
			if !filepath.IsAbs(s) {
				s = filepath.Join(dir, s)
			}
			return filepath.Clean(s)
		}
		var s Sys
		s.Name, s.Ret, s.Errno = name, ret, errno
		switch name {
		case "openat":
			if len(a) < 3 {
				continue
			}
			s.Path = abs(quoted(a[1]))
			fl := a[2]
			switch {
			case strings.Contains(fl, "O_TRUNC"):
				s.Kind = "create"
			case strings.Contains(fl, "O_APPEND"):
				s.Kind = "openappend"
			case strings.Contains(fl, "O_CREAT"):
				s.Kind = "create"
			default:
				s.Kind = "openread"
			}
			if ret >= 0 {
				fds[rets] = s.Path
			}
		case "close":
			delete(fds, strings.TrimSpace(a[0]))
			continue
		case "write", "read":
			p, ok := fds[strings.TrimSpace(a[0])]
			if !ok {
				continue
			}
			s.Path = p
			s.Kind = name
			if name == "write" {
				s.Data = quoted(a[1])
				if ret >= 0 && ret < len(s.Data) {
					s.Data = s.Data[:ret]
				}
			}
		case "getdents64":
			p, ok := fds[strings.TrimSpace(a[0])]
			if !ok {
				continue
			}
			s.Path, s.Kind = p, "readdir"
		case "mkdir":
			s.Path, s.Kind = abs(quoted(a[0])), "mkdir"
		case "mkdirat":
			s.Path, s.Kind = abs(quoted(a[1])), "mkdir"
		case "rename":
			s.Path, s.Path2, s.Kind = abs(quoted(a[0])), abs(quoted(a[1])), "rename"
		case "renameat", "renameat2":
			s.Path, s.Path2, s.Kind = abs(quoted(a[1])), abs(quoted(a[3])), "rename"
		case "unlink":
			s.Path, s.Kind = abs(quoted(a[0])), "remove"
		case "unlinkat":
			s.Path, s.Kind = abs(quoted(a[1])), "remove"
		default:
			continue
		}
		s.Role = roleOf(dir, home, s.Path)
		if s.Role == "" {
			continue
		}
		count[name+"\x00"+s.Path]++
		s.Ord = count[name+"\x00"+s.Path]
		out = append(out, s)
	}
	if len(pending) > 0 {
		// a call that never returned (the process was killed inside it) is fine; anything else is not
		for _, p := range pending {
			if !strings.Contains(p, "exit") {
				_ = p
			}
		}
	}
	return res, out, reliable
}

func isMutation(s Sys) bool {
	if s.Ret < 0 {
		return false
	}
	switch s.Kind {
	case "create", "openappend", "write", "mkdir", "rename", "remove":
		return true
	}
	return false
}

// applyEffect replays one mutation onto a copy of the tree (paths are remapped from `from` to `to`)
func applyEffect(s Sys, from, to string) {
	mp := func(p string) string {
		if rel, err := filepath.Rel(from, p); err == nil && !strings.HasPrefix(rel, "..") {
			return filepath.Join(to, rel)
		}
		return p
	}
	p := mp(s.Path)
	switch s.Kind {
	case "create":
		os.WriteFile(p, nil, 0o666)
	case "openappend":
		f, err := os.OpenFile(p, os.O_WRONLY|os.O_CREATE|os.O_APPEND, 0o666)
		if err == nil {
			f.Close()
		}
	case "write":
		f, err := os.OpenFile(p, os.O_WRONLY|os.O_APPEND, 0o666)
		if err == nil {
			f.Write(s.Data)
			f.Close()
		}
	case "mkdir":
		os.Mkdir(p, 0o777)
	case "rename":
		os.Rename(p, mp(s.Path2))
	case "remove":
		os.Remove(p)
	}
}

func copyTree(src, dst string) error {
	return exec.Command("cp", "-a", src, dst).Run()
}
