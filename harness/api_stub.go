//go:build noapi

package main

// Built instead of api.go when the in-process driver no longer compiles against the working tree (an exported
// function of Goit's internal packages was renamed, removed or changed its signature). The check then reports
// that the function-level correspondence cannot be taken any more and goes on with everything that drives the
// real binary through its command line (histories, judge, command models, whole-repository model).

import (
	"bufio"
	"fmt"
	"os"
)

const apiAvailable = false

func apiMain(dir, goit string) {
	in := bufio.NewReaderSize(os.Stdin, 1<<20)
	out := bufio.NewWriter(os.Stdout)
	for {
		line, err := in.ReadString('\n')
		if len(line) > 1 {
			fmt.Fprintln(out, "api-unavailable")
			out.Flush()
		}
		if err != nil {
			break
		}
	}
}
