package main

// Function-level cases: generated operations run through Goit's exported API in-process (and the CLI
// for cmd-level functions) and through the Lean model driver; answers are diffed line by line.
// Where the generator can compute the answer the *specification* demands independently, it attaches
// it as an expectation (a spec clause judged on the implementation's answer).

import (
	"bytes"
	"fmt"
	"sort"
	"strings"
)

var smallAlphabet = []string{"a", "ad", "d", "d-old", "d.x", "d0", "d e"}

func alphabetFor(ctx *Ctx) []string {
	if ctx.Tier == "thorough" {
		return append(append([]string{}, smallAlphabet...), "d(", "d+")
	}
	return smallAlphabet
}

// all paths of depth <= 2 over the alphabet, in byte order
func pathUniverse(alpha []string, depth2 []string) []string {
	var ps []string
	for _, a := range alpha {
		ps = append(ps, a)
		for _, b := range depth2 {
			ps = append(ps, a+"/"+b)
		}
	}
	sort.Slice(ps, func(i, j int) bool { return bytes.Compare([]byte(ps[i]), []byte(ps[j])) < 0 })
	return ps
}

// subsets of size <= k of 0..n-1, in lexicographic order
func subsets(n, k int, f func([]int)) {
	var cur []int
	var rec func(start int)
	rec = func(start int) {
		f(cur)
		if len(cur) == k {
			return
		}
		for i := start; i < n; i++ {
			cur = append(cur, i)
			rec(i + 1)
			cur = cur[:len(cur)-1]
		}
	}
	rec(0)
}

func fakeID(p string) []byte { return sha1sum([]byte("id-of-" + p)) }

func entsOf(paths []string) []ent {
	var es []ent
	for _, p := range paths {
		es = append(es, ent{fakeID(p), []byte(p)})
	}
	return es
}

func setTag(n int) string { return fmt.Sprintf("set-size=%d", n) }

// ---- C06: lookups over exhaustively enumerated path sets ----

func genC06(ctx *Ctx, r *rng) []Case {
	alpha := alphabetFor(ctx)
	uni := pathUniverse(alpha, []string{"a", "d", "x"})
	k := 3
	if ctx.Tier == "thorough" {
		k = 4
	}
	// queries: every component, every universe path, plus near misses
	queries := append([]string{}, uni...)
	queries = append(queries, "", "/", "d/", "x", "d/x/y", "e", "ad/", "d-", "d.", "d/a/b")
	var cases []Case
	cur := Case{Tag: "exhaustive-lookups"}
	cur.add("st.clear")
	flush := func() {
		if len(cur.Lines) > 1 {
			cases = append(cases, cur)
		}
		cur = Case{Tag: "exhaustive-lookups"}
		cur.add("st.clear")
	}
	count := 0
	subsets(len(uni), k, func(ix []int) {
		var paths []string
		for _, i := range ix {
			paths = append(paths, uni[i])
		}
		es := entriesOut(entsOf(paths))
		member := map[string]int{}
		for i, p := range paths {
			member[p] = i
		}
		// thin the query set deterministically for larger sets to keep the volume bounded
		for qi, q := range queries {
			if len(ix) >= 3 && (qi+count)%3 != 0 {
				continue
			}
			if i, ok := member[q]; ok {
				cur.addExpect("idx.get "+es+" "+hx([]byte(q)), "addressable", fmt.Sprintf("found %d", i))
			} else {
				cur.addExpect("idx.get "+es+" "+hx([]byte(q)), "addressable", "notfound")
			}
			var beneath []string
			for _, p := range paths {
				if strings.HasPrefix(p, q+"/") && len(p) > len(q)+1 {
					beneath = append(beneath, p)
				}
			}
			cur.addExpect("idx.isdir "+es+" "+hx([]byte(q)), "dir-iff", fmt.Sprint(len(beneath) > 0))
			cur.addExpect("idx.bydir "+es+" "+hx([]byte(q)), "dir-select", entriesOut(entsOf(beneath)))
		}
		count++
		if len(cur.Lines) > 400 {
			cur.Name = fmt.Sprintf("sets-%d", count)
			flush()
		}
	})
	cur.Name = "sets-last"
	flush()
	// codec round trip and update/delete on random sorted sets with long names and binary ids
	for i := 0; i < tierN(ctx, 150, 1500); i++ {
		c := Case{Name: fmt.Sprintf("codec-%d", i), Tag: "index-codec"}
		c.add("st.clear")
		n := r.intn(8)
		set := map[string]bool{}
		for j := 0; j < n; j++ {
			set[uni[r.intn(len(uni))]] = true
		}
		if r.chance(1, 6) {
			set[strings.Repeat("long/", 40)+"name"] = true
		}
		// path lengths around every byte boundary of the 2-byte length field (254 … 257, 511 … 513, ~4000)
		if i%3 == 0 {
			for _, n := range []int{254, 255, 256, 257, 300, 511, 512, 513, 1000, 4000}[(i/3)%5*2 : (i/3)%5*2+2] {
				lp := strings.Repeat("deep/", n/5)
				lp += strings.Repeat("n", n-len(lp))
				set[lp] = true
			}
		}
		if r.chance(1, 6) {
			set["ünï/cödé \t x"] = true
		}
		var paths []string
		for p := range set {
			paths = append(paths, p)
		}
		sort.Slice(paths, func(a, b int) bool { return bytes.Compare([]byte(paths[a]), []byte(paths[b])) < 0 })
		var es []ent
		for _, p := range paths {
			es = append(es, ent{r.bytesN(20), []byte(p)})
		}
		file := encodeIndex(es)
		c.addExpect("idx.enc "+entriesOut(es), "canonical", hx(file))
		c.addExpect("idx.dec "+hx(file), "canonical", "ok "+hx([]byte("DIRC"))+" 1 "+entriesOut(es))
		// update: new path, existing path with new id, existing path with same id
		p := uni[r.intn(len(uni))]
		id := r.bytesN(20)
		want := append([]ent{}, es...)
		changed := true
		found := false
		for k := range want {
			if string(want[k].path) == p {
				found = true
				if r.chance(1, 3) {
					id = want[k].id
					changed = false
				}
				want[k] = ent{id, []byte(p)}
			}
		}
		if !found {
			want = append(want, ent{id, []byte(p)})
			sortEnts(want)
		}
		c.addExpect("idx.update "+entriesOut(es)+" "+hx(id)+" "+hx([]byte(p)), "canonical", fmt.Sprintf("ok %v %s", changed, entriesOut(want)))
		// delete
		q := uni[r.intn(len(uni))]
		if len(paths) > 0 && r.chance(2, 3) {
			q = paths[r.intn(len(paths))]
		}
		var rest []ent
		hit := false
		for _, e := range es {
			if string(e.path) == q {
				hit = true
			} else {
				rest = append(rest, e)
			}
		}
		if hit {
			c.addExpect("idx.delete "+entriesOut(es)+" "+hx([]byte(q)), "canonical", "ok "+entriesOut(rest))
		} else {
			c.addExpect("idx.delete "+entriesOut(es)+" "+hx([]byte(q)), "canonical", "err")
		}
		cases = append(cases, c)
	}
	return cases
}

// ---- C02 / C05: tree writer and reader ----

// independent nested tree builder: map of name -> (blob id | subtree), serialised in index order
type tnode struct {
	name string
	id   []byte
	kids []*tnode
	dir  bool
}

func buildTreeSpec(es []ent) []*tnode {
	// group consecutive entries by first component (index order is preserved; entries are sorted)
	var out []*tnode
	i := 0
	for i < len(es) {
		p := string(es[i].path)
		if k := strings.IndexByte(p, '/'); k < 0 {
			out = append(out, &tnode{name: p, id: es[i].id})
			i++
		} else {
			d := p[:k]
			var sub []ent
			for i < len(es) {
				q := string(es[i].path)
				if strings.HasPrefix(q, d+"/") {
					sub = append(sub, ent{es[i].id, []byte(q[k+1:])})
					i++
				} else {
					break
				}
			}
			out = append(out, &tnode{name: d, kids: buildTreeSpec(sub), dir: true})
		}
	}
	return out
}

// serialise bottom-up, collecting objects; returns the tree id
func (c *Case) putTree(nodes []*tnode) []byte {
	var data []byte
	for _, n := range nodes {
		if n.dir {
			n.id = c.putTree(n.kids)
			data = append(data, []byte("040000 "+n.name)...)
		} else {
			data = append(data, []byte("100644 "+n.name)...)
		}
		data = append(data, 0)
		data = append(data, n.id...)
	}
	content := objContent("tree", data)
	id := sha1sum(content)
	c.add("st.put " + hx(id) + " " + hx(content))
	return id
}

func nodesSpecOut(ns []*tnode) string {
	var xs []string
	for _, n := range ns {
		xs = append(xs, hx([]byte(n.name))+"/"+hx(n.id)+"{"+nodesSpecOut(n.kids)+"}")
	}
	return strings.Join(xs, ";")
}

func conflictFree(paths []string) bool {
	for _, a := range paths {
		for _, b := range paths {
			if a != b && strings.HasPrefix(b, a+"/") {
				return false
			}
		}
	}
	return true
}

func genTrees(ctx *Ctx, r *rng, prop string) []Case {
	alpha := alphabetFor(ctx)
	uni := pathUniverse(alpha, []string{"a", "d", "d0"})
	// add depth-3 paths for a few directories
	uni = append(uni, "d/d/x", "d/d0/x", "d0/d/x", "a/a/a/a")
	sort.Slice(uni, func(i, j int) bool { return bytes.Compare([]byte(uni[i]), []byte(uni[j])) < 0 })
	k := 3
	if ctx.Tier == "thorough" {
		k = 4
	}
	var cases []Case
	count := 0
	subsets(len(uni), k, func(ix []int) {
		count++
		if len(ix) == 0 {
			return
		}
		// thin the largest sets deterministically
		if len(ix) == k && k >= 3 && count%3 != 0 {
			return
		}
		var paths []string
		for _, i := range ix {
			paths = append(paths, uni[i])
		}
		es := entsOf(paths)
		c := Case{Name: "write-" + strings.Join(paths, ","), Tag: "exhaustive-writeTree," + setTag(len(paths))}
		c.add("st.clear")
		c.add("tree.write " + entriesOut(es)) // compared with the model (root id + every written object)
		if conflictFree(paths) {
			spec := buildTreeSpec(es)
			// the specification's own serialisation gives the root id the writer must produce
			probe := Case{}
			root := probe.putTree(spec)
			c.addExpect("tree.flatten "+hx(root), "snapshot", "ok "+entriesOut(es))
			c.addExpect("tree.walk "+hx(root), "cat-tree", "ok "+nodesSpecOut(spec))
			for _, p := range paths {
				c.add("tree.getnode " + hx(root) + " " + hx([]byte(p)))
			}
		}
		cases = append(cases, c)
	})
	// reader on independently encoded trees: names with spaces / non-ASCII, ids with 0x00 0x20 0x0a
	names := []string{"my file.txt", "a b c", "ü", "p(q)", "x+y", "lib", "lib.go", "lib-old", "lib0", " lead", "trail ", "a\tb", "日本", "-dash", "040000", "100644 x"}
	for i := 0; i < tierN(ctx, 200, 2000); i++ {
		c := Case{Name: fmt.Sprintf("read-%d", i), Tag: "reader-names-ids"}
		c.add("st.clear")
		var mk func(depth int) []*tnode
		mk = func(depth int) []*tnode {
			n := r.intn(4)
			if depth == 0 && n == 0 && r.chance(4, 5) {
				n = 1
			}
			used := map[string]bool{}
			var ns []*tnode
			for j := 0; j < n; j++ {
				nm := names[r.intn(len(names))]
				if used[nm] {
					continue
				}
				used[nm] = true
				if depth < 3 && r.chance(1, 3) {
					kids := mk(depth + 1)
					if len(kids) == 0 {
						continue
					}
					ns = append(ns, &tnode{name: nm, kids: kids, dir: true})
				} else {
					id := r.bytesN(20)
					switch r.intn(5) {
					case 0:
						id[r.intn(20)] = 0
					case 1:
						id[r.intn(20)] = 0x20
					case 2:
						id[r.intn(20)] = 0x0a
					case 3:
						id = bytes.Repeat([]byte{0}, 20)
					}
					ns = append(ns, &tnode{name: nm, id: id})
				}
			}
			return ns
		}
		spec := mk(0)
		root := c.putTree(spec)
		// blobs are not needed by the reader: leaves are not fetched
		c.addExpect("tree.walk "+hx(root), "cat-tree", "ok "+nodesSpecOut(spec))
		var lines []string
		for _, n := range spec {
			if n.dir {
				lines = append(lines, "040000 tree "+hx2(n.id)+"\t"+n.name)
			} else {
				lines = append(lines, "100644 blob "+hx2(n.id)+"\t"+n.name)
			}
		}
		c.addExpect("tree.render "+hx(root), "cat-tree", "ok "+hx([]byte(strings.Join(lines, "\n"))))
		var flat []ent
		var fl func(prefix string, ns []*tnode)
		fl = func(prefix string, ns []*tnode) {
			for _, n := range ns {
				p := n.name
				if prefix != "" {
					p = prefix + "/" + n.name
				}
				if n.dir {
					fl(p, n.kids)
				} else {
					flat = append(flat, ent{n.id, []byte(p)})
				}
			}
		}
		fl("", spec)
		c.addExpect("tree.flatten "+hx(root), "reset-readback", "ok "+entriesOut(flat))
		// a commit of that snapshot: `Index.Reset` to it must install exactly the flattened entries
		cdata := []byte(fmt.Sprintf("tree %x\nauthor A <a@b.cc> 1 +0000\ncommitter A <a@b.cc> 1 +0000\n\nm\n", root))
		cc := objContent("commit", cdata)
		c.add("st.put " + hx(sha1sum(cc)) + " " + hx(cc))
		c.addExpect("idx.reset "+hx(sha1sum(cc)), "reset-readback", "ok "+entriesOut(flat))
		// the staging area before the reset must not matter: same ids under other paths (a pure rename),
		// a superset, a subset, the same entries
		if len(flat) > 0 {
			ren := append([]ent{}, flat...)
			for i := range ren {
				ren[i] = ent{ren[i].id, append([]byte("zz~"), ren[i].path...)}
			}
			sort.Slice(ren, func(i, j int) bool { return bytes.Compare(ren[i].path, ren[j].path) < 0 })
			c.addExpect("idx.reset "+hx(sha1sum(cc))+" "+entriesOut(ren), "reset-readback", "ok "+entriesOut(flat))
			sup := append(append([]ent{}, flat...), ent{flat[0].id, []byte("~extra")})
			sort.Slice(sup, func(i, j int) bool { return bytes.Compare(sup[i].path, sup[j].path) < 0 })
			c.addExpect("idx.reset "+hx(sha1sum(cc))+" "+entriesOut(sup), "reset-readback", "ok "+entriesOut(flat))
			c.addExpect("idx.reset "+hx(sha1sum(cc))+" "+entriesOut(flat[:len(flat)-1]), "reset-readback", "ok "+entriesOut(flat))
			c.addExpect("idx.reset "+hx(sha1sum(cc))+" "+entriesOut(flat), "reset-readback", "ok "+entriesOut(flat))
		}
		c.add("idx.reset " + hx(root)) // a tree id is not a commit: refused
		cases = append(cases, c)
	}
	// the empty snapshot
	e := Case{Name: "empty-tree", Tag: "empty"}
	e.add("st.clear")
	root := e.putTree(nil)
	e.addExpect("tree.walk "+hx(root), "empty", "ok ")
	e.addExpect("tree.flatten "+hx(root), "empty", "ok -")
	e.add("tree.write -")
	cases = append(cases, e)
	return cases
}

func hx2(b []byte) string { return fmt.Sprintf("%x", b) }

// ---- C07: diff of index against tree ----

func genC07(ctx *Ctx, r *rng) []Case {
	alpha := alphabetFor(ctx)
	uni := pathUniverse(alpha, []string{"a", "x"})
	uni = append(uni, "test", "test-data", "test.c", "test/x", "a/b/c", "a/b/d")
	sort.Slice(uni, func(i, j int) bool { return bytes.Compare([]byte(uni[i]), []byte(uni[j])) < 0 })
	var cases []Case
	n := tierN(ctx, 1500, 20000)
	for i := 0; i < n; i++ {
		pick := func() []string {
			set := map[string]bool{}
			for j := 0; j < r.intn(5); j++ {
				set[uni[r.intn(len(uni))]] = true
			}
			var ps []string
			for p := range set {
				ps = append(ps, p)
			}
			sort.Slice(ps, func(a, b int) bool { return bytes.Compare([]byte(ps[a]), []byte(ps[b])) < 0 })
			return ps
		}
		treePaths := pick()
		for !conflictFree(treePaths) {
			treePaths = pick()
		}
		idxPaths := pick()
		if r.chance(1, 2) {
			// start from the tree and perturb: the interesting diffs are small
			idxPaths = append([]string{}, treePaths...)
			if len(idxPaths) > 0 && r.chance(1, 2) {
				k := r.intn(len(idxPaths))
				idxPaths = append(idxPaths[:k], idxPaths[k+1:]...)
			}
			if r.chance(1, 2) {
				idxPaths = append(idxPaths, uni[r.intn(len(uni))])
				set := map[string]bool{}
				for _, p := range idxPaths {
					set[p] = true
				}
				idxPaths = nil
				for p := range set {
					idxPaths = append(idxPaths, p)
				}
				sort.Slice(idxPaths, func(a, b int) bool { return bytes.Compare([]byte(idxPaths[a]), []byte(idxPaths[b])) < 0 })
			}
		}
		tes := entsOf(treePaths)
		var ies []ent
		for _, p := range idxPaths {
			id := fakeID(p)
			if r.chance(1, 4) {
				id = fakeID(p + "-modified")
			}
			ies = append(ies, ent{id, []byte(p)})
		}
		c := Case{Name: fmt.Sprintf("diff-%d", i), Tag: fmt.Sprintf("tree=%d,index=%d", len(tes), len(ies))}
		c.add("st.clear")
		spec := buildTreeSpec(tes)
		root := c.putTree(spec)
		// the specification: deleted = tree \ index, modified = both with different ids (index id), new = index \ tree
		tm := idxMap(tes)
		im := idxMap(ies)
		var want []string
		for _, e := range tes {
			if id, ok := im[string(e.path)]; !ok {
				want = append(want, "D:"+hx(e.id)+":"+hx(e.path))
			} else if id != hx(e.id) {
				want = append(want, "M:"+id+":"+hx(e.path))
			}
		}
		for _, e := range ies {
			if _, ok := tm[string(e.path)]; !ok {
				want = append(want, "N:"+hx(e.id)+":"+hx(e.path))
			}
		}
		c.addExpect("idx.diff "+entriesOut(ies)+" "+hx(root), "status-exact", "ok "+listOut(want))
		cases = append(cases, c)
	}
	return cases
}

// ---- C12: signature and commit codec ----

func genC12(ctx *Ctx, r *rng) []Case {
	var cases []Case
	names := []string{"Test User", "A", "Ünï Cödé", "name with  two spaces", "x y z", "O'Brien", "a>b", "trailing ", " leading", "日本 太郎", "dash-name", "n@me"}
	emails := []string{"a@b.cc", "test@example.com", "b.c+d@mail.example.org", "x_y-z@sub.domain.co", "A1@x-y.io", "a@b1.c2.dd"}
	times := []int64{1, 59, 1000000000, 1759147200, 4102444800, 9999999999}
	for off := -12 * 3600; off <= 14*3600; off += 900 {
		c := Case{Name: fmt.Sprintf("zone%+d", off), Tag: "all-quarter-hours"}
		c.add("st.clear")
		for k := 0; k < 3; k++ {
			n, e, t := names[r.intn(len(names))], emails[r.intn(len(emails))], times[r.intn(len(times))]
			line := fmt.Sprintf("%s <%s> %d %s", n, e, t, zoneString(off))
			c.addExpect(fmt.Sprintf("sign.fmt %s %s %d %d", hx([]byte(n)), hx([]byte(e)), t, off), "line-form", hx([]byte(line)))
			c.addExpect("sign.parse "+hx([]byte(line)), "readback", fmt.Sprintf("ok %s %s %d %d", hx([]byte(n)), hx([]byte(e)), t, off))
			// a whole commit
			msg := genMessage(r)
			if strings.Contains(msg, "\r") {
				msg = "plain"
			}
			tree := r.bytesN(20)
			data := fmt.Sprintf("tree %x\nauthor %s\ncommitter %s\n\n%s\n", tree, line, line, msg)
			c.addExpect("commit.parse "+hx([]byte(data)), "readback",
				fmt.Sprintf("ok %s - %s %s %d %d %s %s %d %d %s", hx(tree), hx([]byte(n)), hx([]byte(e)), t, off, hx([]byte(n)), hx([]byte(e)), t, off, hx([]byte(msg))))
		}
		cases = append(cases, c)
	}
	// malformed and borderline signature lines: model and implementation must agree (no expectation)
	junk := []string{"", "x", "a <b> 1 +0000", "A <a@b.cc> 0 +0000", "A <a@b.cc> 01 +0000", "A <a@b.cc> 1 +000", "A <a@b.cc> 1 +00000", "A <a@b.cc> 1 0000",
		"A <a@b.c> 1 +0000", "A <a@b.cc>  1 +0000", "A<a@b.cc> 1 +0000", " <a@b.cc> 1 +0000", "A <a@b.cc> 1 -0530", "A <a@b.cc> 1 +0599", "A <a@b.cc> 1 -9999",
		"A <<a@b.cc> 1 +0000", "A <a@@b.cc> 1 +0000", "A <a@-b.cc> 1 +0000", "A <a@b-.cc> 1 +0000", "A <a@b..cc> 1 +0000", "A <a@b.cc> 99999999999999999999 +0000",
		"A <a@b.cc> 9223372036854775807 +0000", "A <a@b.cc> 9223372036854775808 +0000", "A <a@b.cc> 1 +0000 ", "A B <a.b@c-d.ee.ff> 12 -1145"}
	jc := Case{Name: "sign-junk", Tag: "malformed"}
	jc.add("st.clear")
	for _, j := range junk {
		jc.add("sign.parse " + hx([]byte(j)))
	}
	for i := 0; i < tierN(ctx, 200, 3000); i++ {
		b := []byte(junk[r.intn(len(junk))])
		if len(b) > 0 {
			switch r.intn(3) {
			case 0:
				b[r.intn(len(b))] = byte(r.pick([]string{" ", "<", ">", "@", ".", "+", "-", "0", "\t", "\x00"})[0])
			case 1:
				k := r.intn(len(b))
				b = append(b[:k], b[k+1:]...)
			}
		}
		jc.add("sign.parse " + hx(b))
	}
	cases = append(cases, jc)
	cj := Case{Name: "commit-junk", Tag: "malformed"}
	cj.add("st.clear")
	for _, d := range []string{"", "\n", "tree\n", "tree abc\n\nm\n", "tree " + strings.Repeat("a", 40) + "\n\nmsg", "tree " + strings.Repeat("a", 40) + "\nparent x\n\nm\n",
		"author A <a@b.cc> 1 +0000\n\nm\n", "foo bar\ntree " + strings.Repeat("b", 40) + "\n\nm\n", "tree " + strings.Repeat("a", 40) + "\r\nauthor A <a@b.cc> 1 +0000\r\n\r\nm\r\n",
		"tree " + strings.Repeat("A", 40) + "\n\nm\n", "tree " + strings.Repeat("a", 41) + "\n\nm\n", "tree " + strings.Repeat("a", 42) + "\n\nm\n", "no-space-first\ntree x\n",
		"tree " + strings.Repeat("a", 40) + "\n\n" + strings.Repeat("x", 70000) + "\nafter\n", "tree " + strings.Repeat("a", 40) + "\n\nline1\n\nline3\n\n"} {
		cj.add("commit.parse " + hx([]byte(d)))
	}
	cases = append(cases, cj)
	return cases
}

// ---- C11: reflog lines ----

func genC11(ctx *Ctx, r *rng) []Case {
	var cases []Case
	kinds := []string{"commit", "checkout", "branch", "reset"}
	for i := 0; i < tierN(ctx, 300, 3000); i++ {
		c := Case{Name: fmt.Sprintf("log-%d", i), Tag: "format-then-parse"}
		c.add("st.clear")
		n := 1 + r.intn(6)
		var file []byte
		var want []string
		for j := 0; j < n; j++ {
			kind := kinds[r.intn(4)]
			from, to := "nil", "nil"
			f0, t0 := strings.Repeat("0", 40), strings.Repeat("0", 40)
			if r.chance(4, 5) {
				from = hx(r.bytesN(20))
				f0 = from
			}
			if r.chance(5, 6) {
				to = hx(r.bytesN(20))
				t0 = to
			}
			name := r.pick([]string{"Test User", "A B C", "Ünï", "x", "Team: Core", "commit: a: b"})
			email := r.pick([]string{"a@b.cc", "test@example.com"})
			off := (r.intn(105) - 48) * 900
			unix := 1700000000 + r.intn(1000)
			msg := genMessage(r)
			first := msg
			if k := strings.IndexByte(msg, '\n'); k >= 0 {
				first = msg[:k]
			}
			// the line the implementation writes is compared with the model
			c.add(fmt.Sprintf("reflog.fmt %s %s %s %s %s %d %d %s", kind, from, to, hx([]byte(name)), hx([]byte(email)), unix, off, hx([]byte(msg))))
			// the documented line format, rendered independently, must read back as one record each
			file = append(file, []byte(fmt.Sprintf("%s %s %s <%s> %d %s\t%s: %s\n", f0, t0, name, email, unix, zoneString(off), kind, first))...)
			want = append(want, to+"|"+kind+"|"+hx([]byte(first)))
		}
		c.addExpect("reflog.parse "+hx(file), "readable", "ok "+listOut(want))
		for k := 0; k <= n; k++ {
			if k < n {
				c.addExpect(fmt.Sprintf("reflog.get %s %d", hx(file), k), "same-n", "ok "+want[n-1-k])
			} else {
				c.addExpect(fmt.Sprintf("reflog.get %s %d", hx(file), k), "same-n", "ok none")
			}
		}
		cases = append(cases, c)
	}
	// hand-written log files: model and implementation must agree
	z := strings.Repeat("0", 40)
	a := strings.Repeat("a", 40)
	files := []string{"", "\n", "x\n", z + " " + a + " N <e> 1 +0000\tcommit: m\n", z + " " + z + " N <e> 1 +0000\tbranch: renamed\n", a + " zz N <e> 1 +0000\tcommit: m\n",
		a + " " + a + " N\tcommit: m\n", a + " " + a + " N <e> 1 +0000\tbogus: m\n", a + " " + a + " N <e> 1 +0000\tcommit m\n", a + " " + a + " N <e> 1 +0000 commit: m\n",
		a + " " + a + " N <e> 1 +0000\tcommit: a: b\tc\n", a + " " + a + "\n", a + " " + a + " \n", a + " " + strings.ToUpper(a) + " N <e> 1 +0000\tcommit: m\n",
		a + " " + a + " N <e> 1 +0000\tcommit: m\r\n" + a + " " + a + " N <e> 2 +0000\treset: moving to HEAD@{1}\n", a + " " + a + " N <e> 1 +0000\tcommit: " + strings.Repeat("y", 70000) + "\n" + a + " " + a + " N <e> 1 +0000\tcommit: after\n"}
	fc := Case{Name: "log-files", Tag: "hand-written"}
	fc.add("st.clear")
	for _, f := range files {
		fc.add("reflog.parse " + hx([]byte(f)))
		for k := 0; k < 3; k++ {
			fc.add(fmt.Sprintf("reflog.get %s %d", hx([]byte(f)), k))
		}
	}
	cases = append(cases, fc)
	return cases
}

// ---- C20: configuration ----

func genC20(ctx *Ctx, r *rng) []Case {
	var cases []Case
	vals := []string{"Alice", "Bob Builder", "a=b c", "x==y", "[v]", "# v", "\"q\"", "ünï", "a b c d", "=lead", "trail=", "k = v", "[user]", "1"}
	secs := []string{"user", "core", "alias"}
	keys := []string{"name", "email", "editor", "co"}
	for i := 0; i < tierN(ctx, 300, 3000); i++ {
		c := Case{Name: fmt.Sprintf("cfg-%d", i), Tag: "set-sequence"}
		c.add("st.clear")
		// independent model of the file as a map
		m := map[string]map[string]string{}
		file := ""
		render := func() string {
			var ss []string
			for s := range m {
				ss = append(ss, s)
			}
			sort.Strings(ss)
			var xs []string
			for _, s := range ss {
				var ks []string
				for k := range m[s] {
					ks = append(ks, k)
				}
				sort.Strings(ks)
				var kvs []string
				for _, k := range ks {
					kvs = append(kvs, hx([]byte(k))+":"+hx([]byte(m[s][k])))
				}
				xs = append(xs, hx([]byte(s))+"="+strings.Join(kvs, "+"))
			}
			return listOut(xs)
		}
		fileOf := func() string {
			var b strings.Builder
			var ss []string
			for s := range m {
				ss = append(ss, s)
			}
			sort.Strings(ss)
			for _, s := range ss {
				b.WriteString("[" + s + "]\n")
				var ks []string
				for k := range m[s] {
					ks = append(ks, k)
				}
				sort.Strings(ks)
				for _, k := range ks {
					b.WriteString("\t" + k + " = " + m[s][k] + "\n")
				}
			}
			return b.String()
		}
		for j := 0; j < 1+r.intn(6); j++ {
			s, k, v := secs[r.intn(len(secs))], keys[r.intn(len(keys))], vals[r.intn(len(vals))]
			if m[s] == nil {
				m[s] = map[string]string{}
			}
			m[s][k] = v
			c.addExpect(fmt.Sprintf("config.add %s %s %s %s", hx([]byte(file)), hx([]byte(s)), hx([]byte(k)), hx([]byte(v))), "roundtrip", "ok "+render())
			file = fileOf()
			c.addExpect("config.parse "+hx([]byte(file)), "roundtrip", "ok "+render())
		}
		cases = append(cases, c)
	}
	// precedence: every combination of (local?, global?) for name and e-mail
	pc := Case{Name: "precedence", Tag: "precedence"}
	pc.add("st.clear")
	for mask := 0; mask < 16; mask++ {
		loc, glob := "", ""
		var ln, le, gn, ge bool = mask&1 != 0, mask&2 != 0, mask&4 != 0, mask&8 != 0
		if ln || le {
			loc = "[user]\n"
			if ln {
				loc += "\tname = LN\n"
			}
			if le {
				loc += "\temail = l@e.cc\n"
			}
		}
		if gn || ge {
			glob = "[user]\n"
			if gn {
				glob += "\tname = GN\n"
			}
			if ge {
				glob += "\temail = g@e.cc\n"
			}
		}
		name, email := "", ""
		if ln {
			name = "LN"
		} else if gn {
			name = "GN"
		}
		if le {
			email = "l@e.cc"
		} else if ge {
			email = "g@e.cc"
		}
		set := (ln || gn) && (le || ge)
		pc.addExpect("config.user "+hx([]byte(loc))+" "+hx([]byte(glob)), "precedence", fmt.Sprintf("ok %v %s %s", set, hx([]byte(name)), hx([]byte(email))))
	}
	cases = append(cases, pc)
	// malformed files: agree with the model, never crash
	jc := Case{Name: "cfg-junk", Tag: "malformed"}
	jc.add("st.clear")
	for _, f := range []string{"", "\n", "[user]\n\tname\n", "\tname = x\n", "[]\n", "[", "]", "[a]\n[a]\n\tk = v\n", "[a]\n\tk = v\n[a]\n", "[a]\n\tk = v = w\n", "[a]\n = v\n", "[a]\n\tk =\n",
		"[a]\r\n\tk = v\r\n", "[a] \n\tk = v\n", " [a]\n", "[a]\n\n\n\tk = v\n", "[a]\n   \n\tk = v\n", "[a]\n\t\t\n", "[a]\nk\t=\tv w\n", "[a][b]\n\tk = v\n", "[a]\n[b\n", "[a]\n\tk = [v]\n"} {
		jc.add("config.parse " + hx([]byte(f)))
	}
	cases = append(cases, jc)
	return cases
}

// ---- C10: refs slice operations ----

func genC10(ctx *Ctx, r *rng) []Case {
	var cases []Case
	pool := []string{"a", "ab", "abc", "b", "main", "dev", "de", "dev2", "x-1", "v1.0", "b_2", "m", "z", "A", "Z"}
	for i := 0; i < tierN(ctx, 800, 8000); i++ {
		c := Case{Name: fmt.Sprintf("refs-%d", i), Tag: "refs-ops"}
		c.add("st.clear")
		set := map[string][]byte{}
		for j := 0; j < r.intn(6); j++ {
			set[pool[r.intn(len(pool))]] = r.bytesN(20)
		}
		render := func(m map[string][]byte) string {
			var ks []string
			for k := range m {
				ks = append(ks, k)
			}
			sort.Strings(ks)
			var xs []string
			for _, k := range ks {
				xs = append(xs, hx([]byte(k))+":"+hx(m[k]))
			}
			return listOut(xs)
		}
		cur := render(set)
		n := pool[r.intn(len(pool))]
		id := r.bytesN(20)
		_, ex := set[n]
		c.addExpect("refs.exists "+cur+" "+hx([]byte(n)), "list-faithful", fmt.Sprint(ex))
		cp := func() map[string][]byte {
			m := map[string][]byte{}
			for k, v := range set {
				m[k] = v
			}
			return m
		}
		// add
		if ex {
			c.addExpect("refs.add "+cur+" "+hx([]byte(n))+" "+hx(id), "dup-refused", "err")
		} else {
			m := cp()
			m[n] = id
			c.addExpect("refs.add "+cur+" "+hx([]byte(n))+" "+hx(id), "create", "ok "+render(m))
		}
		// update
		if ex {
			m := cp()
			m[n] = id
			c.addExpect("refs.update "+cur+" "+hx([]byte(n))+" "+hx(id), "update-ref", "ok "+render(m))
		} else {
			c.addExpect("refs.update "+cur+" "+hx([]byte(n))+" "+hx(id), "update-ref", "err")
		}
		// delete (head = some other name)
		head := pool[r.intn(len(pool))]
		if ex && n != head {
			m := cp()
			delete(m, n)
			c.addExpect("refs.delete "+cur+" "+hx([]byte(head))+" "+hx([]byte(n)), "delete", "ok "+render(m))
		} else {
			c.addExpect("refs.delete "+cur+" "+hx([]byte(head))+" "+hx([]byte(n)), "delete", "err")
		}
		// rename cur -> n2
		n2 := pool[r.intn(len(pool))]
		_, ex2 := set[n2]
		if ex && !ex2 {
			m := cp()
			m[n2] = m[n]
			delete(m, n)
			c.addExpect("refs.rename "+cur+" "+hx([]byte(n))+" "+hx([]byte(n2)), "rename", "ok "+render(m))
		} else {
			c.addExpect("refs.rename "+cur+" "+hx([]byte(n))+" "+hx([]byte(n2)), "rename", "err")
		}
		cases = append(cases, c)
	}
	// hostile names: model and implementation must agree on refusal
	hc := Case{Name: "refs-hostile", Tag: "hostile-names"}
	hc.add("st.clear")
	base := hx([]byte("main")) + ":" + hx(bytes.Repeat([]byte{1}, 20))
	for _, n := range []string{"", ".", "..", "a/b", "../x", "../../HEAD", "a\\b", "x\x00y", "ok-name", ".hidden", "..."} {
		hc.add("refs.add " + base + " " + hx([]byte(n)) + " " + hx(bytes.Repeat([]byte{2}, 20)))
		hc.add("refs.rename " + base + " " + hx([]byte("main")) + " " + hx([]byte(n)))
	}
	cases = append(cases, hc)
	return cases
}

// ---- C17: ignore matching ----

func genC17(ctx *Ctx, r *rng) []Case {
	var cases []Case
	lines := []string{"build/", "x+y/", "p(q)/", "a.b/", "*.log", "*.tmp", "*.c", "out/", "src/gen/", "my dir/", "*.o"}
	paths := []string{"build", "build/x", "mybuild/x", "x/build/y", "x+y/f", "xxy/f", "p(q)/f", "a.b/f", "aXb/f", "f.log", "f.logx", "dir/f.log", "log", "f.c", "f.cc", "out", "src/gen/a", "src/genx/a",
		"my dir/f", ".goit/HEAD", ".goit", "my.goit/f", "a.goit", "x.goit/y", "f.o", "f.tmp", "b/f.tmp"}
	for i := 0; i < tierN(ctx, 400, 4000); i++ {
		c := Case{Name: fmt.Sprintf("ign-%d", i), Tag: "ignore-match"}
		c.add("st.clear")
		var ls []string
		for j := 0; j < r.intn(3); j++ {
			ls = append(ls, lines[r.intn(len(lines))])
		}
		f := "none"
		if len(ls) > 0 || r.chance(1, 4) {
			f = hx([]byte(strings.Join(ls, "\n") + "\n"))
			if len(ls) == 0 {
				f = "-"
			}
		}
		p := paths[r.intn(len(paths))]
		kind := r.pick([]string{"file", "dir", "missing", "tracked"})
		if strings.HasPrefix(p, ".goit") && p != ".goitignore" {
			kind = "missing" // do not disturb the worker's own .goit
			if p == ".goit" {
				kind = "dir"
			}
		}
		c.add("ignore.match " + f + " " + hx([]byte(p)) + " " + kind)
		cases = append(cases, c)
	}
	return cases
}

// ---- C19: decoders on damaged input ----

func mutations(r *rng, valid []byte, n int) [][]byte {
	var out [][]byte
	// every truncation (thinned for long inputs)
	step := 1 + len(valid)/60
	seen := map[int]bool{}
	for i := 0; i < len(valid); i += step {
		out = append(out, append([]byte{}, valid[:i]...))
		seen[i] = true
	}
	// … and every truncation just before, at and just after a separator of the text formats (a cut that leaves a field
	// empty, or a separator without what follows it, is where hand-written splitting goes wrong); capped for long inputs
	extra := 0
	for i, b := range valid {
		if extra >= 240 {
			break
		}
		if bytes.IndexByte([]byte("\n\t :<>=[]\x00@{}"), b) < 0 {
			continue
		}
		for _, k := range []int{i, i + 1, i + 2} {
			if k >= 0 && k < len(valid) && !seen[k] {
				seen[k] = true
				extra++
				out = append(out, append([]byte{}, valid[:k]...))
			}
		}
	}
	vals := []byte{0x00, 0x0a, 0x20, 0x2f, 0xff, '0', '9'}
	for k := 0; k < n; k++ {
		b := append([]byte{}, valid...)
		if len(b) == 0 {
			break
		}
		i := r.intn(len(b))
		switch r.intn(4) {
		case 0:
			b = append(b[:i], b[i+1:]...)
		case 1:
			b[i] = vals[r.intn(len(vals))]
		case 2:
			b[i]++
		case 3:
			b[i]--
		}
		out = append(out, b)
	}
	return out
}

// cfgHasStrayLine: some line is neither blank, nor a setting (no '='), nor possibly a section header (no '[')
func cfgHasStrayLine(b []byte) bool {
	for _, l := range strings.Split(string(b), "\n") {
		l = strings.TrimSuffix(l, "\r")
		t := strings.TrimSpace(strings.ReplaceAll(l, "\t", ""))
		if t == "" || strings.ContainsAny(l, "=[") {
			continue
		}
		return true
	}
	return false
}

func genC19(ctx *Ctx, r *rng) []Case {
	var cases []Case
	nmut := tierN(ctx, 40, 400)
	// objects: damaged content under the right and the wrong name, swapped files
	{
		blobA := objContent("blob", []byte("one\n"))
		blobB := objContent("blob", []byte("two\n"))
		tree := objContent("tree", append(append([]byte("100644 f\x00"), sha1sum(blobA)...), append([]byte("040000 d\x00"), sha1sum(blobB)...)...))
		cm := objContent("commit", []byte(fmt.Sprintf("tree %x\nauthor A <a@b.cc> 1 +0000\ncommitter A <a@b.cc> 1 +0000\n\nm\n", sha1sum(tree))))
		for vi, valid := range [][]byte{blobA, tree, cm} {
			id := sha1sum(valid)
			for mi, m := range mutations(r, valid, nmut) {
				c := Case{Name: fmt.Sprintf("obj-%d-%d", vi, mi), Tag: "object-damaged"}
				c.add("st.clear")
				c.add("st.put " + hx(id) + " " + hx(m))
				// the specification: an error, or (if the mutation left the content intact) the original
				i := c.add("obj.get " + hx(id))
				if !bytes.Equal(m, valid) {
					c.Expect = map[int]string{i: "err"}
					c.Clause = map[int]string{i: "no-wrong-object"}
				}
				c.add("tree.walk " + hx(id))
				cases = append(cases, c)
			}
		}
		sw := Case{Name: "swap", Tag: "object-swapped"}
		sw.add("st.clear")
		sw.add("st.put " + hx(sha1sum(blobA)) + " " + hx(blobB))
		sw.add("st.put " + hx(sha1sum(blobB)) + " " + hx(blobA))
		sw.addExpect("obj.get "+hx(sha1sum(blobA)), "no-wrong-object", "err")
		sw.addExpect("obj.get "+hx(sha1sum(blobB)), "no-wrong-object", "err")
		// a tree stored under the id of its own sub-directory entry (cycle if the name is not checked)
		cyc := objContent("tree", append([]byte("040000 d\x00"), bytes.Repeat([]byte{7}, 20)...))
		sw.add("st.put " + hx(bytes.Repeat([]byte{7}, 20)) + " " + hx(cyc))
		sw.add("st.put " + hx(sha1sum(cyc)) + " " + hx(cyc))
		sw.addExpect("tree.walk "+hx(sha1sum(cyc)), "total", "err")
		cases = append(cases, sw)
		// headers
		hc := Case{Name: "headers", Tag: "object-header"}
		hc.add("st.clear")
		for _, h := range []string{"", "blob", "blob ", "blob 3", "blob 3\x00ab", "blob 3\x00abcd", "blob 3abc\x00abc", "blob  3\x00abc", "blob +3\x00abc", "blob -0\x00", "blob 1_0\x00" + strings.Repeat("x", 10),
			"blob 1_0\x00x", "blob \t3\x00abc", "blob \n3\x00abc", "blob 03\x00abc", "undefined 0\x00", "Blob 0\x00", "tag 0\x00", "blob 99999999999999999999\x00", "blob 9223372036854775808\x00", " blob 0\x00", "blob\x000\x00",
			// sizes that must never drive an allocation: negative, and far larger than the file
			"blob -1\x00hello", "blob -5\x00", "tree -1\x00", "blob 300000000000\x00hello", "blob 9223372036854775807\x00x", "commit 4294967296\x00", "blob 2147483648\x00abc"} {
			c := []byte(h)
			hc.add("st.put " + hx(sha1sum(c)) + " " + hx(c))
			hc.add("obj.get " + hx(sha1sum(c)))
		}
		cases = append(cases, hc)
	}
	// index files
	{
		valid := encodeIndex(entsOf([]string{"a", "d/x", "d0"}))
		c := Case{Name: "index-damaged", Tag: "index-damaged"}
		c.add("st.clear")
		for _, m := range mutations(r, valid, nmut*3) {
			c.add("idx.dec " + hx(m))
		}
		big := append([]byte("DIRC\x00\x00\x00\x01\xff\xff\xff\xff"), valid[12:]...)
		c.addExpect("idx.dec "+hx(big), "bounded", "err")
		c.add("idx.dec " + hx(append(append([]byte{}, valid...), 1, 2, 3)))
		c.add("idx.dec " + hx(append([]byte("XXXX"), valid[4:]...)))
		cases = append(cases, c)
	}
	// HEAD, branch files, hashes
	{
		c := Case{Name: "head-refs", Tag: "head-refs-damaged"}
		c.add("st.clear")
		for _, h := range []string{"", "ref: refs/heads/main", "ref: refs/heads/main\n", "ref: refs/heads/", "ref: refs/heads/a/b", "ref:refs/heads/main", "xref: refs/heads/main", "ref: refs/heads/a: b",
			"ref: refs/tags/x", strings.Repeat("a", 40), "ref: refs/heads/\n", "ref: refs/heads/\nx", "REF: refs/heads/main"} {
			c.add("head.parse " + hx([]byte(h)))
		}
		a := strings.Repeat("a", 40)
		for _, h := range []string{"", a, a + "\n", a[:39], a + "b", a + "bb", strings.ToUpper(a), "x" + a, a + "x", a[:20] + "g" + a[:19], "  " + a, a + a} {
			c.add("readhash " + hx([]byte(h)))
			c.add("refs.load " + hx([]byte("main")) + ":" + hx([]byte(h)))
		}
		cases = append(cases, c)
	}
	// the text formats: reflog, config file, commit object — every thinned truncation, every truncation around a separator,
	// random single-byte damage; each reader must answer exactly like the model (an error or entries, never a panic)
	{
		a, b2 := strings.Repeat("a", 40), strings.Repeat("b", 40)
		z := strings.Repeat("0", 40)
		logv := []byte(z + " " + a + " Test User <test@example.com> 1700000000 +0000\tcommit: first\n" +
			a + " " + b2 + " Team: Core <t@example.com> 1700000001 -0330\tcommit: second: with colon\n" +
			b2 + " " + z + " X <x@y.zz> 1700000002 +0545\tbranch: renamed refs/heads/main to refs/heads/dev\n" +
			z + " " + b2 + " X <x@y.zz> 1700000003 +0545\tbranch: renamed refs/heads/main to refs/heads/dev\n")
		c := Case{Name: "reflog-damaged", Tag: "reflog-damaged"}
		for _, m := range mutations(r, logv, nmut*2) {
			c.add("reflog.parse " + hx(m))
			c.add(fmt.Sprintf("reflog.get %s %d", hx(m), r.intn(5)))
		}
		cases = append(cases, c)
		cfgv := []byte("[user]\n\tname = Test User\n\temail = test@example.com\n[core]\n\teditor = vim -f\n[alias]\n\tco = x=y [z] # not a comment\n")
		c2 := Case{Name: "config-damaged", Tag: "config-damaged"}
		for _, m := range mutations(r, cfgv, nmut*2) {
			i := c2.add("config.parse " + hx(m))
			// the specification, for the damage it can name without re-implementing the reader: a line that is not blank,
			// holds neither '=' nor '[' (so it is neither a setting nor a section header) makes the file unreadable
			if cfgHasStrayLine(m) {
				if c2.Expect == nil {
					c2.Expect = map[int]string{}
				}
				c2.Expect[i] = "err"
			}
		}
		cases = append(cases, c2)
		cmv := []byte("tree " + a + "\nparent " + b2 + "\nauthor Test User <test@example.com> 1700000000 +0900\ncommitter A  B <a@b.cc> 1700000001 -0330\n\nsubject: x\n\nbody\nauthor not a header\n")
		c3 := Case{Name: "commit-text-damaged", Tag: "commit-text-damaged"}
		for _, m := range mutations(r, cmv, nmut*2) {
			c3.add("commit.parse " + hx(m))
		}
		cases = append(cases, c3)
	}
	// trees
	{
		id := bytes.Repeat([]byte{9}, 20)
		valid := append(append([]byte("100644 f\x00"), id...), append([]byte("100644 g h\x00"), id...)...)
		c := Case{Name: "tree-damaged", Tag: "tree-damaged"}
		c.add("st.clear")
		for _, m := range mutations(r, valid, nmut*3) {
			content := objContent("tree", m)
			c.add("st.put " + hx(sha1sum(content)) + " " + hx(content))
			c.add("tree.walk " + hx(sha1sum(content)))
		}
		cases = append(cases, c)
	}
	return cases
}
