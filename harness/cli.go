package main

// CLI runner and independent observer. The observer is written against the documented on-disk
// layouts only; it does not call Goit.

import (
	"bytes"
	"context"
	"encoding/binary"
	"fmt"
	"os"
	"os/exec"
	"path/filepath"
	"regexp"
	"sort"
	"strconv"
	"strings"
	"time"
)

type ObjInfo struct {
	Kind    string
	Data    []byte
	OK      bool // inflates, header well formed, size matches
	NameOK  bool // file name = SHA-1 of the content
	RawSize int
}

type Obs struct {
	Inited      bool
	Head        []byte
	HasHead     bool
	Branches    map[string][]byte
	IndexRaw    []byte
	HasIndex    bool
	Index       []ent
	IndexOK     bool
	Objects     map[string]*ObjInfo // hex id -> info
	LogHead     []byte
	HasLogHead  bool
	LogBranches map[string][]byte
	CfgLocal    []byte
	HasCfgLocal bool
	CfgGlobal   []byte
	HasCfgGlob  bool
	Files       map[string][]byte // work tree, relative paths with '/'
	Dirs        []string
	Extra       []string // unexpected entries inside .goit
}

func parseObject(content []byte) (kind string, data []byte, ok bool) {
	i := bytes.IndexByte(content, 0)
	if i < 0 {
		return "", nil, false
	}
	hdr := string(content[:i])
	sp := strings.IndexByte(hdr, ' ')
	if sp < 0 {
		return "", nil, false
	}
	kind = hdr[:sp]
	n, err := strconv.Atoi(hdr[sp+1:])
	if err != nil || n != len(content)-i-1 {
		return kind, nil, false
	}
	switch kind {
	case "blob", "tree", "commit", "tag":
	default:
		return kind, nil, false
	}
	return kind, content[i+1:], true
}

func observe(dir, home string) *Obs {
	o := &Obs{Branches: map[string][]byte{}, Objects: map[string]*ObjInfo{}, LogBranches: map[string][]byte{}, Files: map[string][]byte{}}
	g := filepath.Join(dir, ".goit")
	if st, err := os.Stat(g); err == nil && st.IsDir() {
		o.Inited = true
	}
	rd := func(p string) ([]byte, bool) {
		b, err := os.ReadFile(p)
		if err != nil {
			return nil, false
		}
		return b, true
	}
	o.Head, o.HasHead = rd(filepath.Join(g, "HEAD"))
	o.IndexRaw, o.HasIndex = rd(filepath.Join(g, "index"))
	if o.HasIndex {
		o.Index, o.IndexOK = decodeIndex(o.IndexRaw)
	} else {
		o.IndexOK = true
	}
	o.LogHead, o.HasLogHead = rd(filepath.Join(g, "logs", "HEAD"))
	o.CfgLocal, o.HasCfgLocal = rd(filepath.Join(g, "config"))
	o.CfgGlobal, o.HasCfgGlob = rd(filepath.Join(home, ".goitconfig"))
	filepath.Walk(g, func(p string, info os.FileInfo, err error) error {
		if err != nil || p == g {
			return nil
		}
		rel, _ := filepath.Rel(g, p)
		rel = filepath.ToSlash(rel)
		switch {
		case strings.HasPrefix(rel, "refs/heads/"):
			if !info.IsDir() {
				b, _ := os.ReadFile(p)
				o.Branches[strings.TrimPrefix(rel, "refs/heads/")] = b
			} else {
				o.Extra = append(o.Extra, rel+"/")
			}
		case strings.HasPrefix(rel, "logs/refs/heads/"):
			if !info.IsDir() {
				b, _ := os.ReadFile(p)
				o.LogBranches[strings.TrimPrefix(rel, "logs/refs/heads/")] = b
			}
		case strings.HasPrefix(rel, "objects/"):
			if info.IsDir() {
				return nil
			}
			parts := strings.Split(rel, "/")
			if len(parts) != 3 {
				o.Extra = append(o.Extra, rel)
				return nil
			}
			id := parts[1] + parts[2]
			file, _ := os.ReadFile(p)
			inf := &ObjInfo{RawSize: len(file)}
			if content, err := inflate(file); err == nil {
				inf.Kind, inf.Data, inf.OK = parseObject(content)
				inf.NameOK = hx(sha1sum(content)) == id
			}
			o.Objects[id] = inf
		case rel == "HEAD" || rel == "index" || rel == "config" || rel == "objects" || rel == "refs" || rel == "refs/heads" ||
			rel == "refs/tags" || rel == "logs" || rel == "logs/HEAD" || rel == "logs/refs" || rel == "logs/refs/heads":
		default:
			o.Extra = append(o.Extra, rel)
		}
		return nil
	})
	filepath.Walk(dir, func(p string, info os.FileInfo, err error) error {
		if err != nil || p == dir {
			return nil
		}
		rel, _ := filepath.Rel(dir, p)
		rel = filepath.ToSlash(rel)
		if rel == ".goit" {
			return filepath.SkipDir
		}
		if info.IsDir() {
			o.Dirs = append(o.Dirs, rel)
		} else {
			b, _ := os.ReadFile(p)
			o.Files[rel] = b
		}
		return nil
	})
	sort.Strings(o.Dirs)
	sort.Strings(o.Extra)
	return o
}

// ---- independent readers used by the specifications ----

// headBranch: the branch HEAD names, per the documented format "ref: refs/heads/<name>"
func (o *Obs) headBranch() (string, bool) {
	const p = "ref: refs/heads/"
	if !o.HasHead || !bytes.HasPrefix(o.Head, []byte(p)) {
		return "", false
	}
	n := string(o.Head[len(p):])
	// a branch is a file directly inside refs/heads: any non-empty name without '/' (Goit accepts
	// blanks, ": ", tabs and even line breaks in a name and reads such a HEAD back)
	if n == "" || strings.Contains(n, "/") {
		return "", false
	}
	// the format is one line: `ref: refs/heads/` followed by at least one character of that line
	if n[0] == '\n' {
		return "", false
	}
	return n, true
}

func validHex40(b []byte) bool {
	if len(b) != 40 {
		return false
	}
	for _, c := range b {
		if !(c >= '0' && c <= '9' || c >= 'a' && c <= 'f') {
			return false
		}
	}
	return true
}

// headCommit: id the current branch holds ("" if the branch does not exist yet)
func (o *Obs) headCommit() string {
	b, ok := o.headBranch()
	if !ok {
		return ""
	}
	return string(o.Branches[b])
}

type commitInfo struct {
	Tree      string
	Parents   []string
	Author    string
	Committer string
	Message   string
	OK        bool
}

// parseCommit: plain reader of the commit text format
func parseCommit(data []byte) commitInfo {
	var c commitInfo
	s := string(data)
	i := strings.Index(s, "\n\n")
	if i < 0 {
		return c
	}
	for _, l := range strings.Split(s[:i], "\n") {
		sp := strings.IndexByte(l, ' ')
		if sp < 0 {
			return c
		}
		k, v := l[:sp], l[sp+1:]
		switch k {
		case "tree":
			c.Tree = v
		case "parent":
			c.Parents = append(c.Parents, v)
		case "author":
			c.Author = v
		case "committer":
			c.Committer = v
		}
	}
	c.Message = strings.TrimSuffix(s[i+2:], "\n")
	c.OK = c.Tree != ""
	return c
}

type treeItem struct {
	Mode string
	Name string
	ID   []byte
}

// parseTree: plain reader of the tree layout "<mode> <name>\0<20 bytes>"*
func parseTree(data []byte) ([]treeItem, bool) {
	var items []treeItem
	for len(data) > 0 {
		z := bytes.IndexByte(data, 0)
		if z < 0 || len(data) < z+21 {
			return items, false
		}
		line := string(data[:z])
		sp := strings.IndexByte(line, ' ')
		if sp < 0 {
			return items, false
		}
		items = append(items, treeItem{line[:sp], line[sp+1:], append([]byte{}, data[z+1:z+21]...)})
		data = data[z+21:]
	}
	return items, true
}

// snapshot flattens the tree `id` to (path, blob id) pairs in tree order; ok=false if anything is
// missing or of the wrong kind.
func (o *Obs) snapshot(treeID string) ([]ent, bool) {
	var out []ent
	var walk func(id, prefix string, depth int) bool
	walk = func(id, prefix string, depth int) bool {
		if depth > 64 {
			return false
		}
		t, ok := o.Objects[id]
		if !ok || !t.OK || t.Kind != "tree" {
			return false
		}
		items, ok := parseTree(t.Data)
		if !ok {
			return false
		}
		for _, it := range items {
			p := it.Name
			if prefix != "" {
				p = prefix + "/" + it.Name
			}
			if it.Mode == "040000" {
				if !walk(hx(it.ID), p, depth+1) {
					return false
				}
			} else {
				out = append(out, ent{it.ID, []byte(p)})
			}
		}
		return true
	}
	ok := walk(treeID, "", 0)
	return out, ok
}

// commitSnapshot: snapshot of a commit id
func (o *Obs) commitSnapshot(commitID string) ([]ent, commitInfo, bool) {
	c, ok := o.Objects[commitID]
	if !ok || !c.OK || c.Kind != "commit" {
		return nil, commitInfo{}, false
	}
	ci := parseCommit(c.Data)
	if !ci.OK {
		return nil, ci, false
	}
	es, ok := o.snapshot(ci.Tree)
	return es, ci, ok
}

// ---- reflog (independent line reader) ----

type logEntry struct {
	From, To string
	Kind     string
	Msg      string
	Raw      string
}

func parseLogLines(b []byte) []logEntry {
	var out []logEntry
	for _, l := range strings.Split(string(b), "\n") {
		if l == "" {
			continue
		}
		e := logEntry{Raw: l}
		f := strings.SplitN(l, " ", 3)
		if len(f) == 3 {
			e.From, e.To = f[0], f[1]
			if t := strings.IndexByte(f[2], '\t'); t >= 0 {
				rest := f[2][t+1:]
				if c := strings.Index(rest, ": "); c >= 0 {
					e.Kind, e.Msg = rest[:c], rest[c+2:]
				}
			}
		}
		out = append(out, e)
	}
	return out
}

// ---- config (independent first-'=' parser) ----

func parseConfigFile(b []byte) map[string]map[string]string {
	m := map[string]map[string]string{}
	sec := ""
	for _, l := range strings.Split(string(b), "\n") {
		t := strings.TrimSpace(l)
		if t == "" {
			continue
		}
		if strings.HasPrefix(t, "[") && strings.HasSuffix(t, "]") {
			sec = t[1 : len(t)-1]
			if m[sec] == nil {
				m[sec] = map[string]string{}
			}
			continue
		}
		if i := strings.IndexByte(t, '='); i >= 0 && sec != "" {
			m[sec][strings.TrimSpace(t[:i])] = strings.TrimSpace(t[i+1:])
		}
	}
	return m
}

func (o *Obs) identity() (name, email string, ok bool) {
	loc := parseConfigFile(o.CfgLocal)
	glob := parseConfigFile(o.CfgGlobal)
	get := func(k string) (string, bool) {
		if v, ok := loc["user"][k]; ok {
			return v, true
		}
		v, ok := glob["user"][k]
		return v, ok
	}
	n, ok1 := get("name")
	e, ok2 := get("email")
	return n, e, ok1 && ok2
}

// ---- running one invocation ----

type RunRes struct {
	Class  string // ok | error | crash | hang
	Stdout string
	Stderr string
	Code   int
	Raw    string // stdout exactly as written (Stdout has colour codes removed)
}

var ansiRe = regexp.MustCompile("\x1b\\[[0-9;]*m")

func stripANSI(s string) string { return ansiRe.ReplaceAllString(s, "") }

// tzFile writes a 44-byte TZif v1 file for a fixed offset and returns its path.
func tzFile(dir string, offset int) string {
	p := filepath.Join(dir, fmt.Sprintf("tz%d", offset))
	if _, err := os.Stat(p); err == nil {
		return p
	}
	abbr := "VRF"
	var b bytes.Buffer
	b.WriteString("TZif")
	b.WriteByte(0)
	b.Write(make([]byte, 15))
	for _, n := range []uint32{0, 0, 0, 0, 1, uint32(len(abbr) + 1)} {
		binary.Write(&b, binary.BigEndian, n)
	}
	binary.Write(&b, binary.BigEndian, int32(offset))
	b.WriteByte(0)
	b.WriteByte(0)
	b.WriteString(abbr)
	b.WriteByte(0)
	os.WriteFile(p, b.Bytes(), 0o666)
	return p
}

// runGoit runs one invocation; a failure to start the process at all (fork/exec errors under load)
// is a harness problem, not an outcome of goit: it is retried.
func runGoit(goit, dir, home string, tzOffset int, args []string, extraEnv ...string) RunRes {
	var r RunRes
	for attempt := 0; attempt < 5; attempt++ {
		var started bool
		r, started = runGoitOnce(goit, dir, home, tzOffset, args, extraEnv...)
		if started {
			return r
		}
		time.Sleep(time.Duration(50*(attempt+1)) * time.Millisecond)
	}
	return r
}

var prlimitPath = func() string {
	p, err := exec.LookPath("prlimit")
	if err != nil {
		return ""
	}
	return p
}()

func runGoitOnce(goit, dir, home string, tzOffset int, args []string, extraEnv ...string) (RunRes, bool) {
	ctx, cancel := context.WithTimeout(context.Background(), 10*time.Second)
	defer cancel()
	// an address-space limit for the child: a command that allocates from an unchecked number (an id length, a
	// count, `-n`) fails fast instead of exhausting the machine
	cmd := exec.CommandContext(ctx, goit, args...)
	if prlimitPath != "" {
		cmd = exec.CommandContext(ctx, prlimitPath, append([]string{"--as=4294967296", "--", goit}, args...)...)
	}
	cmd.Dir = dir
	tz := "UTC"
	if tzOffset != 0 {
		tz = tzFile(home, tzOffset)
	}
	cmd.Env = append([]string{"HOME=" + home, "TZ=" + tz, "GOMEMLIMIT=1GiB", "PATH=/usr/bin:/bin", "NO_COLOR=1"}, extraEnv...)
	var so, se bytes.Buffer
	cmd.Stdout, cmd.Stderr = &so, &se
	err := cmd.Run()
	r := RunRes{Stdout: stripANSI(so.String()), Stderr: se.String(), Raw: so.String()}
	if ctx.Err() == context.DeadlineExceeded {
		r.Class = "hang"
		return r, true
	}
	if err == nil {
		r.Class = "ok"
		return r, true
	}
	if ee, ok := err.(*exec.ExitError); ok {
		r.Code = ee.ExitCode()
		if strings.Contains(r.Stderr, "panic:") || strings.Contains(r.Stderr, "goroutine ") || r.Code == 2 || r.Code < 0 {
			r.Class = "crash"
		} else {
			r.Class = "error"
		}
		return r, true
	}
	r.Class = "crash"
	r.Stderr = "harness: could not run goit: " + err.Error()
	return r, false
}
