package main

import (
	"bytes"
	"fmt"
	"strings"
)

var checks = map[string]*Check{}

func objContent(kind string, data []byte) []byte {
	return append([]byte(fmt.Sprintf("%s %d\x00", kind, len(data))), data...)
}

// payload pool for C01: block-boundary lengths of SHA-1, all byte values, header look-alikes
func c01Payloads(ctx *Ctx, r *rng) [][]byte {
	var ps [][]byte
	for _, n := range []int{0, 1, 2, 54, 55, 56, 57, 63, 64, 65, 119, 120, 127, 128, 129, 1000, 4096} {
		ps = append(ps, r.bytesN(n))
	}
	all := make([]byte, 256)
	for i := range all {
		all[i] = byte(i)
	}
	ps = append(ps, all, bytes.Repeat([]byte{0}, 300), bytes.Repeat([]byte{0xff}, 77))
	for _, s := range []string{"blob 3\x00abc", "3\x00abc", " 12", "12 ", "tree 0\x00", "commit", "blob", "blob 0", "\x00", "\x00\x00blob 1\x00x",
		"1_000", "+5", "-5", "9223372036854775808", "\xff\xfe invalid utf8 \xc3", "line1\nline2\r\n", "blob 5\x00hello\x00blob 5\x00hello"} {
		ps = append(ps, []byte(s))
	}
	nrand, maxLen := 40, 65536
	if ctx.Tier == "thorough" {
		nrand = 200
	}
	for i := 0; i < nrand; i++ {
		n := r.intn(maxLen)
		if r.chance(1, 2) {
			n = r.intn(300)
		}
		if r.chance(1, 3) {
			ps = append(ps, bytes.Repeat(r.bytesN(1+r.intn(4)), n/4+1)) // highly compressible
		} else {
			ps = append(ps, r.bytesN(n))
		}
	}
	if ctx.Tier == "thorough" {
		for _, n := range []int{1 << 20, 3<<20 + 17} {
			ps = append(ps, r.bytesN(n), bytes.Repeat([]byte("goit"), n/4))
		}
	}
	return ps
}

func init() {
	checks["C01"] = &Check{
		Prop: "C01",
		Gen: func(ctx *Ctx, r *rng) []Case {
			var cases []Case
			kinds := []string{"blob", "tree", "commit"}
			ps := c01Payloads(ctx, r)
			for i, d := range ps {
				k := kinds[i%3]
				if i < 40 {
					k = "blob"
				}
				content := objContent(k, d)
				id := sha1sum(content)
				c := Case{Name: fmt.Sprintf("payload-%d-len%d", i, len(d)), Tag: fmt.Sprintf("kind=%s,len<%d", k, lenBucket(len(d)))}
				c.add("st.clear")
				c.addExpect("sha "+hx(content), "id", hx(id))
				c.addExpect("obj.new "+k+" "+hx(d), "id", hx(id)+" "+hx(content))
				c.addExpect("obj.get "+hx(id), "roundtrip", "ok "+k+" "+hx(d))
				// store other objects, then the same one again: nothing already stored changes
				other := ps[(i*7+3)%len(ps)]
				if len(other) > 70000 {
					other = other[:1000]
				}
				oc := objContent("blob", other)
				c.addExpect("obj.new blob "+hx(other), "id", hx(sha1sum(oc))+" "+hx(oc))
				c.addExpect("obj.new "+k+" "+hx(d), "stable", hx(id)+" "+hx(content))
				c.addExpect("obj.get "+hx(id), "stable", "ok "+k+" "+hx(d))
				c.addExpect("obj.get "+hx(sha1sum(oc)), "stable", "ok blob "+hx(other))
				// an empty file under the object's name (left by a store that failed after creating it) is not the object:
				// the next store writes it, and a store that reports success leaves an object that reads back
				if i%5 == 0 && len(d) < 5000 {
					c.addExpect("obj.heal "+k+" "+hx(d), "roundtrip", "ok "+k+" "+hx(d))
				}
				// an id that was never stored
				c.addExpect("obj.get "+hx(sha1sum(append([]byte("x"), content...))), "roundtrip", "err")
				cases = append(cases, c)
			}
			// multi-MiB periodic payloads (deflate reaches its ~1030:1 limit on them): named by pattern and count
			bigs := []struct {
				pat string
				n   int
			}{{"\x00", 4 << 20}, {"abc", 5 << 20 / 3}}
			if ctx.Tier == "thorough" {
				bigs = append(bigs, struct {
					pat string
					n   int
				}{"\n", 6 << 20}, struct {
					pat string
					n   int
				}{"\xff", 8 << 20}, struct {
					pat string
					n   int
				}{"goit rocks\n", 1 << 19})
			}
			for i, b := range bigs {
				data := bytes.Repeat([]byte(b.pat), b.n)
				k := kinds[i%3]
				c := Case{Name: fmt.Sprintf("big-periodic-%d-len%d", i, len(data)), Tag: fmt.Sprintf("kind=%s,len<%d", k, lenBucket(len(data)))}
				c.add("st.clear")
				c.addExpect(fmt.Sprintf("obj.big %s %s %d", k, hx([]byte(b.pat)), b.n), "roundtrip",
					fmt.Sprintf("%s %s %d %s", hx(sha1sum(objContent(k, data))), k, len(data), hx(sha1sum(data))))
				cases = append(cases, c)
			}
			// a crowded store: several hundred objects in ONE store, so that most fan-out directories
			// (objects/xx) hold several objects, then every one is read back and stored again
			nCrowd := 700
			if ctx.Tier == "thorough" {
				nCrowd = 3000
			}
			crowd := Case{Name: fmt.Sprintf("crowded-store-%d", nCrowd), Tag: "crowded-store"}
			crowd.add("st.clear")
			var cps [][]byte
			for j := 0; j < nCrowd; j++ {
				d := append([]byte(fmt.Sprintf("crowd %d ", j)), r.bytesN(r.intn(24))...)
				cps = append(cps, d)
				k := kinds[j%3]
				content := objContent(k, d)
				crowd.addExpect("obj.new "+k+" "+hx(d), "id", hx(sha1sum(content))+" "+hx(content))
			}
			for j, d := range cps {
				k := kinds[j%3]
				crowd.addExpect("obj.get "+hx(sha1sum(objContent(k, d))), "roundtrip", "ok "+k+" "+hx(d))
			}
			for j := 0; j < nCrowd; j += 7 {
				k := kinds[j%3]
				content := objContent(k, cps[j])
				crowd.addExpect("obj.new "+k+" "+hx(cps[j]), "stable", hx(sha1sum(content))+" "+hx(content))
				crowd.addExpect("obj.get "+hx(sha1sum(content)), "stable", "ok "+k+" "+hx(cps[j]))
			}
			cases = append(cases, crowd)
			return cases
		},
		Impl: runImplAPI,
		// command level: hash-object, add, cat-file on generated work trees (the payload kinds of the pool as file contents)
		Hist: func(ctx *Ctx) *HistCfg {
			return &HistCfg{Prop: "C01", Cases: tierN(ctx, 120, 1200), MinSteps: 8, MaxSteps: 25, FreshPct: 30,
				W: weights(Weights{"write": 22, "hash-object": 16, "cat-file": 16, "add": 14, "add-all": 4, "commit": 6, "rewrite-same": 4, "edit-same-size": 4,
					"rm": 1, "reset": 1, "restore": 1, "branch": 0, "switch": 0, "junk": 0}),
				Oracles: []HistOracle{orC01}}
		},
		Nontrivial: func(c Case, impl []string) bool {
			if strings.HasPrefix(c.Name, "hist-") {
				return len(impl) > 5
			}
			if c.Tag == "crowded-store" {
				return len(impl) > 800 && strings.HasPrefix(impl[800], "ok ")
			}
			if strings.HasPrefix(c.Name, "big-") {
				return len(impl) > 1 && !strings.Contains(impl[1], "err")
			}
			return len(impl) > 3 && strings.HasPrefix(impl[3], "ok ")
		},
		Rule: "payload pool: SHA-1 block-boundary lengths, all 256 byte values, header look-alikes ('blob 3\\0abc', leading digits/spaces), " +
			"invalid UTF-8, random and highly compressible strings up to 64 KiB (thorough: up to 3 MiB), periodic payloads of 4-5 MiB (thorough: up to 8 MiB) that deflate at its limit ratio x kinds blob/tree/commit; each case stores, " +
			"reads back, stores other content, stores again and reads both back; command level: adaptive histories of file writes, hash-object, add, cat-file -t/-p, commit on the real binary judged by the C01 specification (id printed = SHA-1 of 'blob <len>\\0<bytes>', stored blob = file bytes, cat-file gives kind and bytes back, stored objects never change) and compared with the model (`sha`, `cmd.cat-file`); plus one crowded store (700 objects, thorough 3000, in one store so that fan-out directories are shared; all read back and every 7th stored again), through NewObject/Write/GetObject in-process with an independent " +
			"inflate + crypto/sha1; a case is distinct by its script and non-trivial when the stored object was read back successfully",
		Theorems: []string{"C01.world_catfile_prints_stored", "C01.world_add_then_catfile", "C04.world_add_file_stored", "C01.decode_encode", "C01.get_put", "C01.put_frame", "C01.put_idem", "C01.id_eq", "C01.encode_injective"},
		Trusted:  []string{"compress/zlib (cross-checked by an independent inflate)", "crypto/sha1 (the model's executable SHA-1 is compared with it on every payload)"},
	}
}

func lenBucket(n int) int {
	for _, b := range []int{1, 64, 256, 4096, 65536, 1 << 20} {
		if n < b {
			return b
		}
	}
	return 1 << 30
}
