package main

// Whole-repository correspondence: every invocation of every generated history is replayed on the Lean
// model of the whole repository (GoitModel/World.lean). The model carries its own state from step to
// step; before each invocation it is handed the observed state and keeps its own when the two agree
// (`carried`), otherwise it is re-synchronised (`loaded`: an external modification by the harness, an
// earlier step outside the modelled domain, or an earlier disagreement that was already reported). After
// the invocation the model's complete state (every store, byte for byte, long values by their SHA-1) and
// the exit class are compared with what the real command left behind.

import (
	"bytes"
	"fmt"
	"sort"
	"strconv"
	"strings"
)

type worldStep struct {
	pre, post *Obs
	args      []string
	tz        int
	res       RunRes
	stepNo    int
}

type kv struct{ k, v string }

func hexOut(b []byte) string {
	if len(b) == 0 {
		return "-"
	}
	return hx(b)
}

func optOut(b []byte, has bool) string {
	if !has {
		return "none"
	}
	return hexOut(b)
}

func bpairsOut(m map[string][]byte) string {
	var xs []string
	for _, k := range sortedKeysBytewise(m) {
		xs = append(xs, hexOut([]byte(k))+":"+hexOut(m[k]))
	}
	return listOut(xs)
}

// cfgCanon: order-insensitive reading of a configuration file (Config.Write emits sections and keys in Go's map
// order): lines grouped into blocks, each opened by a line starting with '['; lines sorted within a block, blocks
// sorted; the model driver computes the same function of the raw bytes
func cfgCanon(b []byte, has bool) string {
	if !has {
		return "none"
	}
	type block struct {
		h  string
		ls []string
	}
	var blocks []*block
	for _, l := range strings.Split(string(b), "\n") {
		if l == "" {
			continue
		}
		if strings.HasPrefix(l, "[") {
			blocks = append(blocks, &block{h: l})
		} else {
			if len(blocks) == 0 {
				blocks = append(blocks, &block{})
			}
			blocks[len(blocks)-1].ls = append(blocks[len(blocks)-1].ls, l)
		}
	}
	var xs []string
	for _, bl := range blocks {
		sort.Strings(bl.ls)
		var hs []string
		for _, l := range bl.ls {
			hs = append(hs, hexOut([]byte(l)))
		}
		xs = append(xs, hexOut([]byte(bl.h))+"="+strings.Join(hs, "+"))
	}
	// sort blocks by header, then by their sorted lines (compare the decoded values, not the hex text)
	idx := make([]int, len(blocks))
	for i := range idx {
		idx[i] = i
	}
	sort.SliceStable(idx, func(i, j int) bool {
		a, c := blocks[idx[i]], blocks[idx[j]]
		if a.h != c.h {
			return a.h < c.h
		}
		for k := 0; k < len(a.ls) && k < len(c.ls); k++ {
			if a.ls[k] != c.ls[k] {
				return a.ls[k] < c.ls[k]
			}
		}
		return len(a.ls) < len(c.ls)
	})
	var out []string
	for _, i := range idx {
		out = append(out, xs[i])
	}
	return listOut(out)
}

func squash(v string) string {
	if len(v) > 64 {
		return "#" + hx(sha1sum([]byte(v)))
	}
	return v
}

// goitFields: Goit's own files in the model driver's dump format
func goitFields(o *Obs) []kv {
	n := "0"
	if o.Inited {
		n = "1"
	}
	var ids []string
	for id := range o.Objects {
		ids = append(ids, id)
	}
	sort.Strings(ids)
	return []kv{{"N", n}, {"H", optOut(o.Head, o.HasHead)}, {"B", bpairsOut(o.Branches)}, {"I", optOut(o.IndexRaw, o.HasIndex)},
		{"J", listOut(ids)}, {"LH", optOut(o.LogHead, o.HasLogHead)}, {"LB", bpairsOut(o.LogBranches)},
		{"CL", cfgCanon(o.CfgLocal, o.HasCfgLocal)}, {"CG", cfgCanon(o.CfgGlobal, o.HasCfgGlob)}}
}

func workFields(o *Obs) []kv {
	ds := append([]string{}, o.Dirs...)
	sort.Slice(ds, func(i, j int) bool { return bytes.Compare([]byte(ds[i]), []byte(ds[j])) < 0 })
	var xs []string
	for _, d := range ds {
		xs = append(xs, hexOut([]byte(d)))
	}
	return []kv{{"F", bpairsOut(o.Files)}, {"D", listOut(xs)}}
}

func fieldsLine(fs []kv) string {
	var xs []string
	for _, f := range fs {
		xs = append(xs, f.k+"="+squash(f.v))
	}
	return strings.Join(xs, " ")
}

// worldOK: the observed state is one the model can be given (every object file decodes and is named by its
// hash, the staging file decodes, nothing unexpected lies inside .goit, sizes are moderate)
func worldOK(o *Obs) bool {
	if !o.IndexOK || len(o.Extra) > 0 || len(o.Objects) > 400 {
		return false
	}
	total := 0
	for _, x := range o.Objects {
		if x == nil || !x.OK || !x.NameOK {
			return false
		}
		total += len(x.Data)
	}
	for _, b := range o.Files {
		total += len(b)
	}
	if o.HasIndex && !bytes.Equal(o.IndexRaw, encodeIndex(o.Index)) {
		return false
	}
	// Go's strings.TrimSpace also trims Unicode white space (U+0085, U+00A0, U+2000…); the model's is ASCII only:
	// a configuration file holding such a character (only damage produces one) is outside the modelled domain
	for _, c := range [][]byte{o.CfgLocal, o.CfgGlobal} {
		for _, sp := range []string{"\u0085", "\u00a0", "\u1680", "\u2028", "\u2029", "\u202f", "\u205f", "\u3000"} {
			if bytes.Contains(c, []byte(sp)) {
				return false
			}
		}
		if bytes.Contains(c, []byte{0xe2, 0x80}) {
			return false
		}
	}
	// HEAD damaged so that it names `.` or `..` (or a path through them): beneath refs/heads that is a directory, which the
	// implementation fails to read where the model sees "no such branch file" — outside the modelled domain
	if b, ok := o.headBranch(); ok {
		for _, comp := range strings.Split(b, "/") {
			if comp == "." || comp == ".." {
				return false
			}
		}
	}
	return total <= 300000
}

func logTimes(pre, post []byte) []string {
	if !bytes.HasPrefix(post, pre) {
		pre = nil
	}
	var ts []string
	for _, l := range strings.Split(string(post[len(pre):]), "\n") {
		i := strings.IndexByte(l, '\t')
		if i < 0 {
			continue
		}
		f := strings.Fields(l[:i])
		if len(f) >= 2 {
			if _, err := strconv.ParseInt(f[len(f)-2], 10, 64); err == nil {
				ts = append(ts, f[len(f)-2])
			}
		}
	}
	return ts
}

// clockReadings: the instants the command read from the clock, recovered from what it wrote (the author
// line of a new commit object, then the new lines of logs/HEAD, then the new lines of the branch logs)
func clockReadings(pre, post *Obs) []string {
	var ts []string
	var newCommits []string
	for id, x := range post.Objects {
		if _, old := pre.Objects[id]; !old && x != nil && x.OK && x.Kind == "commit" {
			newCommits = append(newCommits, id)
		}
	}
	sort.Strings(newCommits)
	for _, id := range newCommits {
		f := strings.Fields(parseCommit(post.Objects[id].Data).Author)
		if len(f) >= 2 {
			ts = append(ts, f[len(f)-2])
		}
	}
	if len(newCommits) == 0 && bytes.HasPrefix(post.LogHead, pre.LogHead) {
		// a commit whose object was already stored (the same tree, parent, identity, message and second as an earlier
		// one) writes no new object: its clock reading is the author time of the object the new `commit` record names
		for _, l := range strings.Split(string(post.LogHead[len(pre.LogHead):]), "\n") {
			i := strings.IndexByte(l, '\t')
			if i < 0 || !strings.HasPrefix(l[i+1:], "commit") {
				continue
			}
			if f := strings.Fields(l[:i]); len(f) >= 2 {
				if x, ok := post.Objects[f[1]]; ok && x != nil && x.OK && x.Kind == "commit" {
					if a := strings.Fields(parseCommit(x.Data).Author); len(a) >= 2 {
						ts = append(ts, a[len(a)-2])
					}
				}
			}
		}
	}
	ts = append(ts, logTimes(pre.LogHead, post.LogHead)...)
	for _, n := range sortedKeysBytewise(post.LogBranches) {
		ts = append(ts, logTimes(pre.LogBranches[n], post.LogBranches[n])...)
	}
	return ts
}

var stdoutCompared = map[string]bool{"ls-files": true, "rev-parse": true, "write-tree": true, "hash-object": true, "cat-file": true}

func expectedO(args []string, res RunRes) string {
	if res.Class != "ok" || len(args) == 0 {
		return "none"
	}
	cmp := stdoutCompared[args[0]]
	if args[0] == "branch" {
		for _, a := range args[1:] {
			if a == "-l" || a == "--list" {
				cmp = true
			}
		}
	}
	if !cmp {
		return "none"
	}
	return squash(hexOut([]byte(res.Raw)))
}

// worldScript: the model script of one history and, per `w.x` line, what the implementation did
type WorldScript struct {
	Lines  []string
	Expect map[int]string // line index -> "R=… O=… N=… … D=…"
	StepOf map[int]int    // line index -> step of the history
	Args   map[int][]string
}

func buildWorldScript(steps []worldStep) *WorldScript {
	ws := &WorldScript{Expect: map[int]string{}, StepOf: map[int]int{}, Args: map[int][]string{}}
	ws.Lines = append(ws.Lines, "w.reset")
	sent := map[string]bool{}
	for _, s := range steps {
		if !worldOK(s.pre) || !worldOK(s.post) || (s.res.Class != "ok" && s.res.Class != "error") {
			continue
		}
		o := s.pre
		var ids, fresh []string
		for id := range o.Objects {
			ids = append(ids, id)
		}
		sort.Strings(ids)
		for _, id := range ids {
			if !sent[id] {
				sent[id] = true
				x := o.Objects[id]
				fresh = append(fresh, id+"="+hx(objContent(x.Kind, x.Data)))
			}
		}
		jn := "-"
		if len(fresh) > 0 {
			jn = strings.Join(fresh, ";")
		}
		ix := "none"
		if o.HasIndex {
			ix = entriesOut(o.Index)
		}
		n := "0"
		if o.Inited {
			n = "1"
		}
		ws.Lines = append(ws.Lines, fmt.Sprintf("w.sync %s %s %s %s %s %s %s %s %s %s", n, optOut(o.Head, o.HasHead), bpairsOut(o.Branches), ix,
			listOut(ids), jn, optOut(o.LogHead, o.HasLogHead), bpairsOut(o.LogBranches), optOut(o.CfgLocal, o.HasCfgLocal), optOut(o.CfgGlobal, o.HasCfgGlob)))
		wf := workFields(o)
		ws.Lines = append(ws.Lines, "w.work "+wf[0].v+" "+wf[1].v)
		var as []string
		for _, a := range s.args {
			as = append(as, "x"+hx([]byte(a)))
		}
		li := len(ws.Lines)
		ws.Lines = append(ws.Lines, fmt.Sprintf("w.x %d %s %s", s.tz, listOut(clockReadings(s.pre, s.post)), listOut(as)))
		ws.Expect[li] = "R=" + s.res.Class + " O=" + expectedO(s.args, s.res) + " " + fieldsLine(append(goitFields(s.post), workFields(s.post)...))
		ws.StepOf[li] = s.stepNo
		ws.Args[li] = s.args
		// objects the command itself stored are known to the model already if it agrees; if not they are sent with the next sync
	}
	return ws
}

// diffFields names the fields in which two dump lines differ
func diffFields(a, b string) []string {
	am := map[string]string{}
	for _, f := range strings.Fields(a) {
		if i := strings.IndexByte(f, '='); i > 0 {
			am[f[:i]] = f[i+1:]
		}
	}
	var ds []string
	seen := map[string]bool{}
	for _, f := range strings.Fields(b) {
		if i := strings.IndexByte(f, '='); i > 0 {
			seen[f[:i]] = true
			if am[f[:i]] != f[i+1:] {
				ds = append(ds, f[:i])
			}
		}
	}
	for k := range am {
		if !seen[k] {
			ds = append(ds, k)
		}
	}
	sort.Strings(ds)
	return ds
}
