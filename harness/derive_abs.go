package main

// Refinement check against the abstract state machine (GoitModel/Abstract.lean, theorems C03.inv_run,
// C03.objects_monotone): abs(state after) must equal Abs.run (abs(state before)) (ops of the command).

import (
	"bytes"
	"fmt"
	"sort"
	"strings"
)

func absState(o *Obs) string {
	var cs, bs []string
	for id, x := range o.Objects {
		if !x.OK {
			continue
		}
		switch x.Kind {
		case "commit":
			cs = append(cs, id)
		case "blob":
			bs = append(bs, id)
		}
	}
	sort.Strings(cs)
	sort.Strings(bs)
	var rs []string
	for _, n := range sortedKeysBytewise(o.Branches) {
		rs = append(rs, hx([]byte(n))+":"+hx(unhx(string(o.Branches[n]))))
	}
	hb, _ := o.headBranch()
	var ix []string
	es := append([]ent{}, o.Index...)
	sort.SliceStable(es, func(i, j int) bool { return bytes.Compare(es[i].path, es[j].path) < 0 })
	for _, e := range es {
		ix = append(ix, hx(e.path)+":"+hx(e.id))
	}
	var lg []string
	for _, l := range parseLogLines(o.LogHead) {
		if l.To == strings.Repeat("0", 40) {
			lg = append(lg, "nil")
		} else {
			lg = append(lg, hx(unhx(l.To)))
		}
	}
	return fmt.Sprintf("C=%s B=%s R=%s H=%s I=%s L=%s", listOut(cs), listOut(bs), listOut(rs), hx([]byte(hb)), listOut(ix), listOut(lg))
}

func sortedKeysBytewise(m map[string][]byte) []string {
	var ks []string
	for k := range m {
		ks = append(ks, k)
	}
	sort.Slice(ks, func(i, j int) bool { return bytes.Compare([]byte(ks[i]), []byte(ks[j])) < 0 })
	return ks
}

// index operations observed between two states (the staged ids come from the observation; what is
// checked is everything else: blobs stored, branches, HEAD, reflog, and that nothing unrelated moved)
func indexOps(pre, post *Obs, fromHead bool) []string {
	var ops []string
	a, b := idxMap(pre.Index), idxMap(post.Index)
	var ks []string
	for p := range a {
		ks = append(ks, p)
	}
	for p := range b {
		if _, ok := a[p]; !ok {
			ks = append(ks, p)
		}
	}
	sort.Strings(ks)
	for _, p := range ks {
		ida, ina := a[p]
		idb, inb := b[p]
		switch {
		case ina && !inb:
			ops = append(ops, "unstage:"+hx([]byte(p)))
		case inb && (!ina || ida != idb):
			if fromHead {
				ops = append(ops, "stage:"+hx([]byte(p))+":"+idb)
			} else {
				ops = append(ops, "add:"+hx([]byte(p))+":"+idb)
			}
		}
	}
	return ops
}

func deriveAbsLine(t *Trans) *Derived {
	pre, post := t.Pre, t.Post
	if len(t.Args) == 0 || !pre.Inited || !pre.IndexOK || !post.IndexOK {
		return nil
	}
	if _, ok := pre.headBranch(); !ok {
		return nil
	}
	if t.Res.Class != "ok" && t.Res.Class != "error" {
		return nil
	}
	a := t.Args
	var ops []string
	ok := t.Res.Class == "ok"
	switch {
	case a[0] == "add" || a[0] == "rm":
		// these may have staged some paths before failing on a later argument: the observed index
		// operations are applied either way
		ops = indexOps(pre, post, false)
	case a[0] == "restore":
		ops = indexOps(pre, post, true)
	case a[0] == "commit" && ok:
		ops = []string{"commit:" + post.headCommit()}
	case a[0] == "branch" && len(a) == 2 && ok && !strings.HasPrefix(a[1], "-"):
		ops = []string{"bcreate:" + hx([]byte(a[1]))}
	case a[0] == "branch" && len(a) == 3 && a[1] == "-d" && ok:
		ops = []string{"bdelete:" + hx([]byte(a[2]))}
	case a[0] == "branch" && len(a) == 3 && a[1] == "-r" && ok:
		ops = []string{"brename:" + hx([]byte(a[2]))}
	case a[0] == "switch" && len(a) == 2 && ok:
		ops = []string{"switch:" + hx([]byte(a[1]))}
	case a[0] == "switch" && len(a) == 3 && a[1] == "-c" && ok:
		ops = []string{"switchc:" + hx([]byte(a[2]))}
	case a[0] == "update-ref" && len(a) == 3 && ok:
		n := a[1][strings.LastIndex(a[1], "/")+1:]
		ops = []string{"updateref:" + hx([]byte(n)) + ":" + a[2]}
	case a[0] == "reset":
		if ok {
			_, rest, flagsOK := resetMode(a[1:])
			if !flagsOK || len(rest) != 1 {
				return nil
			}
			m := resetArgRe.FindStringSubmatch(rest[0])
			if m == nil || len(m[1]) > 8 {
				return nil
			}
			ops = append([]string{"reset:" + m[1]}, indexOps(pre, post, true)...)
		} else {
			// a reset that failed after moving the branch (blocked --hard): outside the abstract model
			if !bytes.Equal(pre.LogHead, post.LogHead) {
				return nil
			}
		}
	}
	opstr := "-"
	if len(ops) > 0 {
		opstr = strings.Join(ops, ";")
	}
	st := strings.ReplaceAll(absState(pre), " ", "|")
	var fields []string
	for _, f := range strings.Split(st, "|") {
		fields = append(fields, f[2:])
	}
	line := "abs.run " + strings.Join(fields, " ") + " " + opstr
	return &Derived{Line: line, Impl: absState(post)}
}
